package main

// Mutation neighbourhoods.  Every family is an indexable, complete
// enumeration: N mutants, Gen(i) deterministically builds the i-th one.

import (
	"bytes"
	"crypto/elliptic"
	"encoding/binary"
	"encoding/hex"
	"encoding/pem"
	"fmt"
	"math/big"
	"sort"
	"strings"
)

type family struct {
	Name  string
	N     int
	Gen   func(i int) (string, *input) // nil input: not a mutant (equals the original)
	Entry string                       // "" = the vector's entry point
	Cheap bool                         // small family: run at every (time, policy) point even in quick
	// PerMutant: the family replaces whole signed sections; the expectation is
	// derived from the mutated quote itself (see mutantExpectation).
	PerMutant bool
}

var byteVals = []byte{0x00, 0x01, 0x17, 0x18, 0x7f, 0x80, 0xfe, 0xff}

func (v *vector) withQuote(q []byte) *input {
	in := v.Base
	in.Quote = q
	return &in
}

func flipBit(b []byte, i int) []byte {
	m := append([]byte{}, b...)
	m[i/8] ^= 1 << (i % 8)
	return m
}

// ---- generic byte-string families ----------------------------------------

func bitFamily(name string, src []byte, set func(m []byte) *input) family {
	return family{Name: name, N: 8 * len(src), Gen: func(i int) (string, *input) {
		return fmt.Sprintf("byte %d bit %d", i/8, i%8), set(flipBit(src, i))
	}}
}

func byteValFamily(name string, src []byte, set func(m []byte) *input) family {
	return family{Name: name, N: len(byteVals) * len(src), Gen: func(i int) (string, *input) {
		pos, val := i/len(byteVals), byteVals[i%len(byteVals)]
		if src[pos] == val {
			return "", nil
		}
		m := append([]byte{}, src...)
		m[pos] = val
		return fmt.Sprintf("byte %d := %#02x", pos, val), set(m)
	}}
}

func truncFamily(name string, src []byte, set func(m []byte) *input) family {
	return family{Name: name, N: len(src), Cheap: true, Gen: func(i int) (string, *input) {
		return fmt.Sprintf("truncate to %d bytes", i), set(append([]byte{}, src[:i]...))
	}}
}

type named struct {
	Desc string
	In   *input
}

func listFamily(name string, l []named) family {
	return family{Name: name, N: len(l), Cheap: true, Gen: func(i int) (string, *input) { return l[i].Desc, l[i].In }}
}

// ---- integer boundary values ------------------------------------------------

func boundaryVals(width int, orig uint64, kind string, extra ...uint64) []uint64 {
	set := map[uint64]bool{}
	add := func(x uint64) {
		if width < 64 {
			x &= (1 << uint(width)) - 1
		}
		if x != orig {
			set[x] = true
		}
	}
	for _, x := range []uint64{0, 1, 2, 3, 4, 5, 6, 7, 8, 0x17, 0x18, 0x7f, 0x80, 0x81, 0xfe, 0xff, 0x100, 0x7fff, 0x8000, 0xfffe, 0xffff, 0x10000,
		0x7fffffff, 0x80000000, 0xfffffffe, 0xffffffff, 1 << 32, 1<<63 - 1, 1 << 63, 1<<64 - 2, 1<<64 - 1} {
		if width == 64 || x < 1<<uint(width) {
			add(x)
		}
	}
	for _, d := range []uint64{1, 2, 4, 6, 64} {
		add(orig + d)
		add(orig - d)
	}
	add(orig ^ (1 << uint(width-1)))
	add(^orig)
	for _, x := range extra {
		add(x)
	}
	var out []uint64
	for x := range set {
		out = append(out, x)
	}
	sort.Slice(out, func(i, j int) bool { return out[i] < out[j] })
	return out
}

func getLE(b []byte, n int) uint64 {
	var x uint64
	for i := 0; i < n; i++ {
		x |= uint64(b[i]) << (8 * uint(i))
	}
	return x
}
func putLE(b []byte, n int, x uint64) {
	for i := 0; i < n; i++ {
		b[i] = byte(x >> (8 * uint(i)))
	}
}

type fieldVal struct {
	F field
	V uint64
}

func (v *vector) structuralValues(maxPerField int) []fieldVal {
	q := v.Base.Quote
	var out []fieldVal
	for _, f := range v.L.fields() {
		if f.Kind == "bytes" {
			continue
		}
		orig := getLE(q[f.Off:], f.Len)
		var extra []uint64
		if f.Kind == "len" {
			rem := uint64(len(q) - f.Off - f.Len)
			extra = []uint64{rem, rem + 1, rem - 1, 583, 584, 585, uint64(len(q)), uint64(v.L.CertLen), uint64(v.L.SigLen), 404}
		}
		vals := boundaryVals(8*f.Len, orig, f.Kind, extra...)
		if maxPerField > 0 && len(vals) > maxPerField {
			// Keep the smallest, the largest and those closest to the original.
			sort.Slice(vals, func(i, j int) bool { return absDiff(vals[i], orig) < absDiff(vals[j], orig) })
			keep := append([]uint64{}, vals[:maxPerField-4]...)
			rest := vals[maxPerField-4:]
			sort.Slice(rest, func(i, j int) bool { return rest[i] < rest[j] })
			keep = append(keep, rest[0], rest[1], rest[len(rest)-2], rest[len(rest)-1])
			vals = keep
		}
		for _, x := range vals {
			out = append(out, fieldVal{f, x})
		}
	}
	return out
}

func absDiff(a, b uint64) uint64 {
	if a > b {
		return a - b
	}
	return b - a
}

// ---- ECDSA malleation --------------------------------------------------------

// highS returns r || (n - s) for a raw P-256 signature (also valid for the
// same message: not covered by anything, must verify to identical output).
func highS(sig []byte) []byte {
	n := elliptic.P256().Params().N
	s := new(big.Int).SetBytes(sig[32:64])
	s.Sub(n, s)
	out := append([]byte{}, sig[:32]...)
	return append(out, s.FillBytes(make([]byte, 32))...)
}

// ---- PEM helpers -------------------------------------------------------------

func pemBlocks(raw []byte) (ders [][]byte) {
	for {
		var b *pem.Block
		b, raw = pem.Decode(raw)
		if b == nil {
			return
		}
		ders = append(ders, b.Bytes)
	}
}

func pemJoin(ders [][]byte, term []byte) []byte {
	var out []byte
	for _, d := range ders {
		out = append(out, pem.EncodeToMemory(&pem.Block{Type: "CERTIFICATE", Bytes: d})...)
	}
	return append(out, term...)
}

// ---- quote families ------------------------------------------------------------

func (v *vector) quoteFamilies(u *universe, thorough bool) []family {
	q := v.Base.Quote
	l := v.L
	set := func(m []byte) *input { return v.withQuote(m) }
	var fams []family
	fams = append(fams, bitFamily("quote/bit", q, set))
	fams = append(fams, byteValFamily("quote/byteval", q, set))

	// Boundary values at every integer / type / length position.
	sv := v.structuralValues(0)
	fams = append(fams, family{Name: "quote/field", N: len(sv), Cheap: true, Gen: func(i int) (string, *input) {
		m := append([]byte{}, q...)
		putLE(m[sv[i].F.Off:], sv[i].F.Len, sv[i].V)
		return fmt.Sprintf("%s := %#x", sv[i].F.Name, sv[i].V), set(m)
	}})

	// Whole-field fills and copies between equal-length fields.
	var fills []named
	fs := l.fields()
	for _, f := range fs {
		orig := q[f.Off : f.Off+f.Len]
		put := func(desc string, val []byte) {
			if bytes.Equal(val, orig) {
				return
			}
			m := append([]byte{}, q...)
			copy(m[f.Off:], val)
			fills = append(fills, named{f.Name + " := " + desc, set(m)})
		}
		put("zeros", make([]byte, f.Len))
		put("ones", bytes.Repeat([]byte{0xff}, f.Len))
		rev := make([]byte, f.Len)
		for i := range rev {
			rev[i] = orig[f.Len-1-i]
		}
		put("reversed", rev)
		inc := append([]byte{}, orig...)
		inc[f.Len-1]++
		put("last byte +1", inc)
		for _, g := range fs {
			if g.Len == f.Len && g.Name != f.Name {
				put("copy of "+g.Name, q[g.Off:g.Off+g.Len])
			}
		}
		if f.Len == 64 && (f.Name == "sig.quotesig" || f.Name == "qe.sig") {
			put("(r, n-s)", highS(orig))
		}
	}
	fams = append(fams, listFamily("quote/fill", fills))

	// Pairwise combinations of structural positions.
	perField := 10
	if thorough {
		perField = 16
	}
	pv := v.structuralValues(perField)
	var idx [][2]int
	for i := range pv {
		for j := i + 1; j < len(pv); j++ {
			if pv[i].F.Name != pv[j].F.Name && structuralPos(pv[i].F) && structuralPos(pv[j].F) {
				idx = append(idx, [2]int{i, j})
			}
		}
	}
	fams = append(fams, family{Name: "quote/pair", N: len(idx), Cheap: true, Gen: func(k int) (string, *input) {
		a, b := pv[idx[k][0]], pv[idx[k][1]]
		m := append([]byte{}, q...)
		putLE(m[a.F.Off:], a.F.Len, a.V)
		putLE(m[b.F.Off:], b.F.Len, b.V)
		return fmt.Sprintf("%s := %#x, %s := %#x", a.F.Name, a.V, b.F.Name, b.V), set(m)
	}})

	// Truncations (plain, and with the enclosing length fields made consistent).
	fams = append(fams, truncFamily("quote/trunc", q, set))
	if v.Entry != "trailing" {
		f := truncFamily("quote/trunc@trailing-entry", q, set)
		f.Entry = "trailing"
		fams = append(fams, f)
	}
	sigEnd := l.SigOff + l.SigLen
	nfix := sigEnd - l.SigOff
	fams = append(fams, family{Name: "quote/trunc-consistent", N: 3 * nfix, Cheap: true, Gen: func(i int) (string, *input) {
		mode, c := i/nfix, l.SigOff+i%nfix
		m := append([]byte{}, q[:c]...)
		binary.LittleEndian.PutUint32(m[l.SigLenAt:], uint32(c-l.SigOff))
		if mode >= 1 && l.OuterAt >= 0 && c >= l.OuterAt+6 {
			binary.LittleEndian.PutUint32(m[l.OuterAt+2:], uint32(c-l.OuterAt-6))
		}
		if mode >= 2 && c >= l.CertOff {
			binary.LittleEndian.PutUint32(m[l.CSizeAt:], uint32(c-l.CertOff))
		}
		return fmt.Sprintf("truncate to %d bytes, length fields fixed up (mode %d)", c, mode), set(m)
	}})

	// Extensions.
	var exts []named
	sec := cut(q, l)
	for _, k := range []int{1, 2, 3, 4, 6, 8, 16, 64, 70, 584, 4096} {
		for pi, pad := range [][]byte{bytes.Repeat([]byte{0}, k), bytes.Repeat([]byte{0xff}, k), repeatTo(q, k), repeatTo(q[l.CertOff:], k)} {
			exts = append(exts, named{fmt.Sprintf("append %d bytes (pattern %d) after the quote", k, pi), set(append(append([]byte{}, q...), pad...))})
			s := sec.clone()
			s.Tail = append(s.Tail, pad...)
			exts = append(exts, named{fmt.Sprintf("append %d bytes (pattern %d) inside signature data, siglen fixed", k, pi), set(s.build(1))})
			exts = append(exts, named{fmt.Sprintf("append %d bytes (pattern %d) inside signature data, siglen+envelope fixed", k, pi), set(s.build(3))})
			s = sec.clone()
			s.Cert = append(s.Cert, pad...)
			exts = append(exts, named{fmt.Sprintf("append %d bytes (pattern %d) to certification data, all lengths fixed", k, pi), set(s.build(15))})
			s = sec.clone()
			s.Auth = append(s.Auth, pad...)
			exts = append(exts, named{fmt.Sprintf("append %d bytes (pattern %d) to QE authentication data, all lengths fixed", k, pi), set(s.build(15))})
			s = sec.clone()
			s.Cert = append(append([]byte{}, pad...), s.Cert...)
			exts = append(exts, named{fmt.Sprintf("prepend %d bytes (pattern %d) to certification data, all lengths fixed", k, pi), set(s.build(15))})
		}
	}
	// Re-enveloping between quote versions.
	{
		s := sec.clone()
		if s.Version == 3 {
			s.Version = 4
			s.RawOuterTyp = 6
			binary.LittleEndian.PutUint16(s.Header[0:], 4)
			exts = append(exts, named{"v3 quote re-enveloped as v4 (header version 4, QE-report envelope added)", set(s.build(15))})
			s2 := s.clone()
			binary.LittleEndian.PutUint16(s2.Header[0:], 3)
			exts = append(exts, named{"v3 header with v4 envelope", set(s2.build(15))})
			s3 := s.clone()
			binary.LittleEndian.PutUint16(s3.Header[8:], 0)
			binary.LittleEndian.PutUint16(s3.Header[10:], 0)
			exts = append(exts, named{"v3 quote re-enveloped as v4 with reserved fields cleared", set(s3.build(15))})
		} else {
			s.Version = 3
			binary.LittleEndian.PutUint16(s.Header[0:], 3)
			exts = append(exts, named{"v4 quote re-enveloped as v3 (header version 3, envelope removed)", set(s.build(15))})
			s2 := s.clone()
			binary.LittleEndian.PutUint32(s2.Header[4:], 0)
			exts = append(exts, named{"v4 quote re-enveloped as v3 with reserved field cleared", set(s2.build(15))})
			s3 := sec.clone()
			s3.Version = 3
			exts = append(exts, named{"v4 header without envelope", set(s3.build(15))})
		}
	}
	fams = append(fams, listFamily("quote/extend", exts))
	if v.Entry != "trailing" {
		f := listFamily("quote/extend@trailing-entry", exts)
		f.Entry = "trailing"
		fams = append(fams, f)
	}

	// PCK chain inside the quote: DER bit flips (re-encoded PEM, lengths fixed)
	// and list operations.
	if sec.CType == 5 {
		ders := pemBlocks(sec.Cert)
		term := []byte{}
		if n := len(sec.Cert); n > 0 && sec.Cert[n-1] == 0 {
			term = []byte{0}
		}
		rebuild := func(d [][]byte) *input {
			s := sec.clone()
			s.Cert = pemJoin(d, term)
			return set(s.build(15))
		}
		if same := rebuild(ders); !bytes.Equal(same.Quote, q) {
			// Re-encoding is not byte-identical (line endings); the DER families still
			// enumerate every DER bit, the unmodified re-encoding is itself a mutant.
			fams = append(fams, listFamily("quote/pck-reencode", []named{{"PEM chain re-encoded without change", same}}))
		}
		var offs []int
		tot := 0
		for _, d := range ders {
			offs = append(offs, tot)
			tot += len(d)
		}
		fams = append(fams, family{Name: "quote/pck-der-bit", N: 8 * tot, Gen: func(i int) (string, *input) {
			c := sort.Search(len(offs), func(k int) bool { return offs[k] > i/8 }) - 1
			d := append([][]byte{}, ders...)
			d[c] = flipBit(ders[c], i-8*offs[c])
			return fmt.Sprintf("PCK chain cert %d DER byte %d bit %d", c, i/8-offs[c], i%8), rebuild(d)
		}})
		var ops []named
		tcbDers := pemBlocks(v.Base.Certs)
		pool := map[string][]byte{}
		for i, d := range ders {
			pool[fmt.Sprintf("pck%d", i)] = d
		}
		for i, d := range tcbDers {
			pool[fmt.Sprintf("tcb%d", i)] = d
		}
		for _, w := range u.Vecs {
			if w == v || w.L == nil {
				continue
			}
			ws := cut(w.Base.Quote, w.L)
			if ws.CType != 5 {
				continue
			}
			for i, d := range pemBlocks(ws.Cert) {
				pool[fmt.Sprintf("%s.pck%d", w.Name, i)] = d
			}
		}
		var names []string
		for k := range pool {
			names = append(names, k)
		}
		sort.Strings(names)
		// Every chain of length 0..3 over the pool of all certificates of the
		// universe (includes every drop / duplicate / swap / permutation / splice).
		var rec func(prefix []string)
		rec = func(prefix []string) {
			if len(prefix) > 0 || true {
				var d [][]byte
				for _, n := range prefix {
					d = append(d, pool[n])
				}
				ops = append(ops, named{"PCK chain := [" + strings.Join(prefix, ",") + "]", rebuild(d)})
			}
			if len(prefix) == 3 {
				return
			}
			for _, n := range names {
				rec(append(append([]string{}, prefix...), n))
			}
		}
		rec(nil)
		// Length-4 chains: original plus one extra certificate at each position.
		for _, n := range names {
			for pos := 0; pos <= 3; pos++ {
				var d [][]byte
				d = append(d, ders[:pos]...)
				d = append(d, pool[n])
				d = append(d, ders[pos:]...)
				ops = append(ops, named{fmt.Sprintf("PCK chain with %s inserted at %d", n, pos), rebuild(d)})
			}
		}
		pl := listFamily("quote/pck-list", ops)
		pl.PerMutant = true
		fams = append(fams, pl)
	}

	// Splices: every non-empty proper subset of sections taken from every other
	// quote of the universe.
	type secRef struct {
		name string
		get  func(s *sections) *[]byte
	}
	refs := []secRef{
		{"header", func(s *sections) *[]byte { return &s.Header }},
		{"body", func(s *sections) *[]byte { return &s.Body }},
		{"quotesig", func(s *sections) *[]byte { return &s.QSig }},
		{"attkey", func(s *sections) *[]byte { return &s.AttKey }},
		{"qereport", func(s *sections) *[]byte { return &s.QEReport }},
		{"qesig", func(s *sections) *[]byte { return &s.QESig }},
		{"auth", func(s *sections) *[]byte { return &s.Auth }},
		{"certdata", func(s *sections) *[]byte { return &s.Cert }},
	}
	var spl []named
	for _, w := range u.Vecs {
		if w == v || w.L == nil {
			continue
		}
		ws := cut(w.Base.Quote, w.L)
		for mask := 1; mask < 1<<len(refs)-1; mask++ {
			s := sec.clone()
			var ns []string
			for b, r := range refs {
				if mask&(1<<b) != 0 {
					*r.get(s) = append([]byte{}, *r.get(ws)...)
					ns = append(ns, r.name)
					if r.name == "certdata" {
						s.CType = ws.CType
					}
					if r.name == "header" {
						// Keep the envelope consistent with the header's version.
						s.Version = ws.Version
						s.RawOuterTyp = 6
					}
				}
			}
			m := s.build(15)
			if bytes.Equal(m, q) {
				continue
			}
			spl = append(spl, named{"sections {" + strings.Join(ns, ",") + "} taken from " + w.Name, set(m)})
		}
	}
	sf := listFamily("quote/splice", spl)
	sf.PerMutant = true
	fams = append(fams, sf)
	return fams
}

func structuralPos(f field) bool {
	return f.Kind == "type" || f.Kind == "len" || strings.HasPrefix(f.Name, "hdr.")
}

func repeatTo(src []byte, k int) []byte {
	out := make([]byte, 0, k)
	for len(out) < k {
		n := k - len(out)
		if n > len(src) {
			n = len(src)
		}
		out = append(out, src[:n]...)
	}
	return out
}

// ---- collateral families ---------------------------------------------------------

var statuses = []string{"UpToDate", "SWHardeningNeeded", "ConfigurationNeeded", "ConfigurationAndSWHardeningNeeded", "OutOfDate", "OutOfDateConfigurationNeeded", "Revoked"}

type token struct {
	Off, End int // [Off,End) in the body, including quotes for strings
	Str      bool
}

func jsonTokens(b []byte) []token {
	var ts []token
	for i := 0; i < len(b); {
		c := b[i]
		switch {
		case c == '"':
			j := i + 1
			for j < len(b) && b[j] != '"' {
				if b[j] == '\\' {
					j++
				}
				j++
			}
			ts = append(ts, token{i, j + 1, true})
			i = j + 1
		case c == '-' || (c >= '0' && c <= '9'):
			j := i + 1
			for j < len(b) && strings.IndexByte("0123456789.eE+-", b[j]) >= 0 {
				j++
			}
			ts = append(ts, token{i, j, false})
			i = j
		default:
			i++
		}
	}
	return ts
}

func isHex(s string) bool {
	if len(s) < 4 || len(s)%2 != 0 {
		return false
	}
	_, err := hex.DecodeString(s)
	return err == nil
}

func tokenReplacements(tok string, str bool) []string {
	set := map[string]bool{}
	var out []string
	add := func(s string) {
		if s != tok && !set[s] {
			set[s] = true
			out = append(out, s)
		}
	}
	if !str {
		var n int64
		fmt.Sscan(tok, &n)
		for _, x := range []int64{0, 1, n - 1, n + 1, 255, 256, 65535, 65536, 2147483647, 2147483648, 4294967295, 4294967296, -1} {
			add(fmt.Sprint(x))
		}
		add(tok + ".0")
		add(tok + "e0")
		add("\"" + tok + "\"")
		return out
	}
	s := tok[1 : len(tok)-1]
	q := func(x string) { add("\"" + x + "\"") }
	q("")
	q(s + "0")
	if len(s) > 0 {
		q(s[:len(s)-1])
	}
	q(strings.ToUpper(s))
	q(strings.ToLower(s))
	for _, st := range statuses {
		if s == st {
			for _, o := range statuses {
				q(o)
			}
		}
	}
	if len(s) == 20 && s[19] == 'Z' && s[10] == 'T' {
		var y int
		fmt.Sscan(s[:4], &y)
		q(fmt.Sprintf("%04d%s", y+1, s[4:]))
		q(fmt.Sprintf("%04d%s", y-1, s[4:]))
		q(fmt.Sprintf("%04d%s", y+10, s[4:]))
		q("2099-01-01T00:00:00Z")
		q("1970-01-01T00:00:00Z")
		q(s[:19] + ".5Z")
	}
	if isHex(s) {
		q(strings.Repeat("0", len(s)))
		q(strings.Repeat("F", len(s)))
		q(s[:len(s)-2])
		q(s + "00")
	}
	for a, b := range map[string]string{"SGX": "TDX", "TDX": "SGX", "QE": "TD_QE", "TD_QE": "QE", "TDX_03": "TDX_01", "TDX_01": "TDX_03"} {
		if s == a {
			q(b)
		}
	}
	add("null")
	add("0")
	return out
}

func signedFamilies(prefix string, body []byte, sig string, set func(body []byte, sig string) *input, otherSigs map[string]string, thorough bool) []family {
	var fams []family
	sb := func(m []byte) *input { return set(m, sig) }
	fams = append(fams, bitFamily(prefix+"/body-bit", body, sb))
	if thorough {
		fams = append(fams, byteValFamily(prefix+"/body-byteval", body, sb))
	}
	fams = append(fams, truncFamily(prefix+"/body-trunc", body, sb))
	// Token replacements.
	var reps []named
	for _, t := range jsonTokens(body) {
		tok := string(body[t.Off:t.End])
		for _, r := range tokenReplacements(tok, t.Str) {
			m := append(append(append([]byte{}, body[:t.Off]...), r...), body[t.End:]...)
			reps = append(reps, named{fmt.Sprintf("token at %d %s := %s", t.Off, clip(tok, 40), clip(r, 40)), sb(m)})
		}
	}
	for _, x := range []string{" ", "\n", "\t", "}", ",", "\x00", "{}", string(body)} {
		reps = append(reps, named{fmt.Sprintf("append %q to the body", clip(x, 8)), sb(append(append([]byte{}, body...), x...))})
		reps = append(reps, named{fmt.Sprintf("prepend %q to the body", clip(x, 8)), sb(append([]byte(x), body...))})
	}
	fams = append(fams, listFamily(prefix+"/body-token", reps))
	// Signature string.
	ss := func(m []byte) *input { return set(body, string(m)) }
	fams = append(fams, bitFamily(prefix+"/sig-ascii-bit", []byte(sig), ss))
	raw, _ := hex.DecodeString(sig)
	fams = append(fams, bitFamily(prefix+"/sig-raw-bit", raw, func(m []byte) *input { return set(body, hex.EncodeToString(m)) }))
	f := truncFamily(prefix+"/sig-trunc", []byte(sig), ss)
	fams = append(fams, f)
	var misc []named
	addS := func(d, s string) {
		if s != sig {
			misc = append(misc, named{"signature := " + d, set(body, s)})
		}
	}
	addS("upper case", strings.ToUpper(sig))
	addS("zeros", strings.Repeat("0", 128))
	addS("ones", strings.Repeat("f", 128))
	addS("r,r", sig[:64]+sig[:64])
	addS("s,r", sig[64:]+sig[:64])
	addS("(r, n-s)", hex.EncodeToString(highS(raw)))
	addS("sig+00", sig+"00")
	addS("0x prefix", "0x"+sig)
	addS("leading space", " "+sig)
	var on []string
	for k := range otherSigs {
		on = append(on, k)
	}
	sort.Strings(on)
	for _, k := range on {
		addS("signature of "+k, otherSigs[k])
	}
	fams = append(fams, listFamily(prefix+"/sig-misc", misc))
	return fams
}

func clip(s string, n int) string {
	if len(s) > n {
		return s[:n] + "…"
	}
	return s
}

func (v *vector) collateralFamilies(u *universe, thorough bool) []family {
	others := map[string]string{}
	for _, t := range u.TCB {
		others[t.Name] = t.Sig
	}
	for _, t := range u.QE {
		others[t.Name] = t.Sig
	}
	var fams []family
	fams = append(fams, signedFamilies("tcbinfo", v.Base.TCBInfo, v.Base.TCBSig, func(b []byte, s string) *input {
		in := v.Base
		in.TCBInfo, in.TCBSig = b, s
		return &in
	}, others, thorough)...)
	fams = append(fams, signedFamilies("qeid", v.Base.QEID, v.Base.QESig, func(b []byte, s string) *input {
		in := v.Base
		in.QEID, in.QESig = b, s
		return &in
	}, others, thorough)...)

	// TCB signing chain.
	sc := func(m []byte) *input {
		in := v.Base
		in.Certs = m
		return &in
	}
	certs := v.Base.Certs
	fams = append(fams, bitFamily("certs/pem-bit", certs, sc))
	if thorough {
		fams = append(fams, byteValFamily("certs/pem-byteval", certs, sc))
	}
	fams = append(fams, truncFamily("certs/trunc", certs, sc))
	ders := pemBlocks(certs)
	var offs []int
	tot := 0
	for _, d := range ders {
		offs = append(offs, tot)
		tot += len(d)
	}
	fams = append(fams, family{Name: "certs/der-bit", N: 8 * tot, Gen: func(i int) (string, *input) {
		c := sort.Search(len(offs), func(k int) bool { return offs[k] > i/8 }) - 1
		d := append([][]byte{}, ders...)
		d[c] = flipBit(ders[c], i-8*offs[c])
		return fmt.Sprintf("TCB chain cert %d DER byte %d bit %d", c, i/8-offs[c], i%8), sc(pemJoin(d, nil))
	}})
	// Every chain of length 0..3 over all certificates of the universe.
	pool := map[string][]byte{}
	for i, d := range ders {
		pool[fmt.Sprintf("tcb%d", i)] = d
	}
	for i, d := range pemBlocks(u.Certs["bad"]) {
		pool[fmt.Sprintf("bad%d", i)] = d
	}
	for _, w := range u.Vecs {
		if w.L == nil {
			continue
		}
		ws := cut(w.Base.Quote, w.L)
		if ws.CType != 5 {
			continue
		}
		for i, d := range pemBlocks(ws.Cert) {
			pool[fmt.Sprintf("%s.pck%d", w.Name, i)] = d
		}
	}
	var names []string
	for k := range pool {
		names = append(names, k)
	}
	sort.Strings(names)
	var ops []named
	var rec func(prefix []string)
	rec = func(prefix []string) {
		var d [][]byte
		for _, n := range prefix {
			d = append(d, pool[n])
		}
		m := pemJoin(d, nil)
		if !bytes.Equal(m, certs) {
			ops = append(ops, named{"TCB chain := [" + strings.Join(prefix, ",") + "]", sc(m)})
		}
		if len(prefix) == 3 {
			return
		}
		for _, n := range names {
			rec(append(append([]string{}, prefix...), n))
		}
	}
	rec(nil)
	ops = append(ops, named{"TCB chain := nil", sc(nil)})
	ops = append(ops, named{"TCB chain := certs_bad.pem", sc(u.Certs["bad"])})
	ops = append(ops, named{"TCB chain re-encoded", sc(pemJoin(ders, nil))})
	ops = append(ops, named{"TCB chain with CRLF line ends", sc(bytes.ReplaceAll(certs, []byte("\n"), []byte("\r\n")))})
	ops = append(ops, named{"TCB chain with text between the blocks", sc(bytes.Replace(certs, []byte("-----BEGIN"), []byte("junk\n-----BEGIN"), -1))})
	fams = append(fams, listFamily("certs/list", ops))
	return fams
}
