// pcsmc decides C18 (attestation quotes are accepted only as signed and within
// policy) by complete mutation-neighbourhood enumeration over the repository's
// known-good SGX / TDX quote vectors and their collateral, the full product of
// validity-window boundary instants and policy settings, every combination of
// the collateral files of the universe, and a family of synthetic bundles
// signed by a harness-owned root (to reach TCB statuses and platform
// mismatches no Intel-signed test vector contains).  Every case is one
// execution of the real verification code; the oracle is: error, or the
// unmodified vector's verified identity and report data; and error whenever
// the independent reference model says the combination must be rejected.
package main

import (
	"bytes"
	"encoding/json"
	"fmt"
	"os"
	"sort"
	"strings"
	"sync"
	"sync/atomic"
	"syscall"
	"time"

	"github.com/oasisprotocol/oasis-core/go/common/sgx"
	"github.com/oasisprotocol/oasis-core/go/common/sgx/pcs"

	"verif/harness/internal/ev"
)

func main() {
	r := ev.Parse("fault_enumeration")
	if r.ID != "C18" {
		fmt.Println("pcsmc decides C18 only")
		os.Exit(2)
	}
	e := &engine{r: r}
	if r.Replay != "" {
		e.replay()
		r.Finish()
	}
	e.run()
	r.Finish()
}

// slot-based watchdog: a verification that does not return is reported with its input.
type wdSlot struct {
	start atomic.Int64
	art   atomic.Pointer[artefact]
}

var (
	wdSlots [256]wdSlot
	wdCtr   atomic.Int64
)

// parRange runs f(i) for i in [0,n) on ev.Workers() goroutines (f must be safe
// for concurrent use on distinct i).  Indices are handed out in chunks through
// one atomic counter; the seed only rotates the starting offset (results are
// order independent).
func parRange(n int, seed int64, f func(i int)) {
	w := ev.Workers()
	if w > n {
		w = n
	}
	if w <= 0 {
		return
	}
	off := int(((seed % int64(n)) + int64(n)) % int64(n))
	const chunk = 16
	var next atomic.Int64
	var wg sync.WaitGroup
	for k := 0; k < w; k++ {
		wg.Add(1)
		go func() {
			defer wg.Done()
			for {
				lo := int(next.Add(chunk)) - chunk
				if lo >= n {
					return
				}
				hi := lo + chunk
				if hi > n {
					hi = n
				}
				for i := lo; i < hi; i++ {
					f((i + off) % n)
				}
			}
		}()
	}
	wg.Wait()
}

func cpuSeconds() float64 {
	var ru syscall.Rusage
	if syscall.Getrusage(syscall.RUSAGE_SELF, &ru) != nil {
		return 0
	}
	return float64(ru.Utime.Sec+ru.Stime.Sec) + float64(ru.Utime.Usec+ru.Stime.Usec)/1e6
}

// watchdog ends the run with a harness error when a verification does not
// return.  Wall-clock stalls of an oversubscribed machine must not count, so a
// hang is: no evaluation anywhere completed while this process burned 200
// CPU-seconds (busy loop in the code under test), or for 15 minutes of
// monotonic time, with at least one evaluation in flight.
func (e *engine) watchdog() {
	mono := func() int64 { return int64(time.Since(e.r.Start)) }
	last, lastChange, lastCPU := e.evals.Load(), mono(), cpuSeconds()
	for {
		time.Sleep(5 * time.Second)
		if n := e.evals.Load(); n != last {
			last, lastChange, lastCPU = n, mono(), cpuSeconds()
			continue
		}
		if cpuSeconds()-lastCPU < 200 && mono()-lastChange < int64(15*time.Minute) {
			continue
		}
		for i := range wdSlots {
			if wdSlots[i].start.Load() > 0 {
				a := wdSlots[i].art.Load()
				b, _ := json.Marshal(a)
				_ = os.WriteFile("/tmp/pcsmc-hang.json", b, 0o644)
				e.r.HarnessError("no verification completed while one is in flight (200 CPU-s or 15 min; input written to /tmp/pcsmc-hang.json): %s %s", a.Vector, a.Mutation)
				e.r.Cap("hang")
				e.r.Finish()
			}
		}
	}
}

// check runs one (input, time, policy) through the real code and the oracle.
func (e *engine) check(v *vector, fam, desc, entry string, in *input, p tp, must string) outcome {
	return e.checkV0(v, v.V0, fam, desc, entry, in, p, must)
}

// mutantExpectation derives, for families that replace whole signed sections
// (splices, certificate chain replacements), what the mutated quote is entitled
// to: the verified quote of the genuine vector whose signed header+body it
// carries (nil: none), and the reference model's verdict for the facts of the
// mutated quote itself (its own PCK chain, TEE type, module measurements).
func (e *engine) mutantExpectation(v *vector, in *input, p tp, baseMust string) (string, *sgx.VerifiedQuote) {
	l, err := parseLayout(in.Quote)
	if err != nil {
		return baseMust, v.V0
	}
	var v0 *sgx.VerifiedQuote
	signed := in.Quote[:l.BodyOff+l.BodyLen]
	for _, w := range e.u.Vecs {
		if w.L != nil && bytes.Equal(signed, w.Base.Quote[:w.L.BodyOff+w.L.BodyLen]) {
			v0 = w.V0
			break
		}
	}
	qf, err := parseQuoteFacts(in.Quote)
	if err != nil {
		return "embedded PCK certificate chain unusable: " + err.Error(), v0
	}
	return mustReject(qf, v.TF, v.EF, v.CW, p.TS, p.Pol), v0
}

func (e *engine) checkV0(v *vector, v0 *sgx.VerifiedQuote, fam, desc, entry string, in *input, p tp, must string) outcome {
	a := &artefact{Vector: v.Name, Mutation: desc, Entry: entry, Trust: v.Trust, TS: p.TS, Policy: p.Pol, PolName: p.Name, In: *in, MustReject: must}
	s := int(wdCtr.Add(1) & 255)
	wdSlots[s].art.Store(a)
	wdSlots[s].start.Add(1)
	out := execute(entry, in, p.TS, p.Pol)
	wdSlots[s].start.Add(-1)
	e.judge(fam, a, v0, out)
	return out
}

func (e *engine) run() {
	r := e.r
	thorough := r.Thorough()
	go e.watchdog()
	if r.Deadline.IsZero() {
		if thorough {
			r.Deadline = r.Start.Add(12*time.Minute + 30*time.Second)
		} else {
			r.Deadline = r.Start.Add(62 * time.Second)
		}
	}
	r.Assume(
		"real-vector layers run with the genuine Intel SGX root (pcs.IntelTrustRoots untouched); only the repository's test vectors and collateral exist for them (no new Intel-signed material can be produced)",
		"collateral validity is taken as: every certificate's notBefore..notAfter, and issueDate <= t <= issueDate + policy.TCBValidityPeriod days for TCB info and QE identity (nextUpdate is parsed but not enforced by the implementation and is not demanded by the oracle)",
		"process-global unsafe switches (SetSkipVerify, SetAllowDebugEnclaves, SetUnsafeLaxVerify) stay at their production defaults",
		"mutation distance: single bits, single bytes x 8 boundary values, one or two structural fields, section/chain/collateral replacement; arbitrary multi-bit changes outside those families are not enumerated",
		"IAS (EPID) attestation, the HTTP/caching PCS client and the Rust runtime's verifier are out of scope",
	)
	u := loadUniverse()
	e.u = u
	for _, v := range u.Vecs {
		if err := v.prepare(); err != nil {
			r.HarnessError("%v", err)
			return
		}
	}
	// ---- baselines ---------------------------------------------------------
	base := tp{0, permissive(), "permissive"}
	for _, v := range u.Vecs {
		base.TS = v.T0
		must := mustReject(v.QF, v.TF, v.EF, v.CW, v.T0, base.Pol)
		out := execute(v.Entry, &v.Base, v.T0, base.Pol)
		e.evals.Add(1)
		switch {
		case out.Panic != "":
			e.violate(v.Name+"/baseline/panic", "unmodified vector panics: "+out.Panic, &artefact{Vector: v.Name, Mutation: "none", Entry: v.Entry, Trust: v.Trust, TS: v.T0, Policy: base.Pol, PolName: base.Name, In: v.Base}, nil)
			return
		case v.Positive && !out.Accepted:
			r.HarnessError("baseline vector %s is not accepted by the code under test (%s): nothing can be decided", v.Name, out.Err)
			return
		case v.Positive && must != "":
			r.HarnessError("reference model rejects the known-good vector %s: %s", v.Name, must)
			return
		case !v.Positive && must == "":
			r.HarnessError("reference model has no reason to reject the negative vector %s", v.Name)
			return
		case !v.Positive && out.Accepted:
			e.violate(v.Name+"/baseline/accepted-must-reject", "negative vector accepted: "+must, &artefact{Vector: v.Name, Mutation: "none", Entry: v.Entry, Trust: v.Trust, TS: v.T0, Policy: base.Pol, PolName: base.Name, In: v.Base, MustReject: must}, nil)
		}
		if v.Positive {
			v.V0 = out.VQ
		}
		e.sample("baseline", 8, map[string]any{"vector": v.Name, "entry": v.Entry, "quote_bytes": len(v.Base.Quote), "tcb_info": v.tcbName, "qe_identity": v.qeName, "t0": v.T0,
			"baseline": map[string]any{"accepted": out.Accepted, "error": out.Err, "identity": idString(out)}, "reference_must_reject": must})
	}

	// ---- time x policy product on the unmodified vectors ---------------------
	vals := []uint16{30, 90}
	if thorough {
		vals = []uint16{0, 1, 30, 90, 65535}
	}
	for _, v := range u.Vecs {
		if !e.phaseOn("product") {
			break
		}
		times := v.boundaryTimes(vals)
		pols := v.policyProduct(vals, thorough)
		r.Add("product_times", int64(len(times)))
		r.Add("product_policies", int64(len(pols)))
		if e.expired() {
			break
		}
		n := len(times) * len(pols)
		parRange(n, r.Seed, func(i int) {
			if e.expired() {
				return
			}
			ts, np := times[i/len(pols)], pols[i%len(pols)]
			must := mustReject(v.QF, v.TF, v.EF, v.CW, ts, np.Pol)
			fam := "product"
			if np.HexCase && must == "" {
				// The only reason to reject is the blacklist entry in the other hex
				// case; only this case carries the known-finding key.
				fam = "product/" + hexcaseKey
				must = "policy: FMSPC blacklisted (entry names the platform's FMSPC in the other hex case)"
			}
			out := e.check(v, fam, "unmodified", v.Entry, &v.Base, tp{ts, np.Pol, np.Name}, must)
			if must == "" && !out.Accepted && out.Panic == "" {
				e.overstrict.Add(1)
				e.sample("overstrict", 4, map[string]any{"note": "implementation stricter than the reference model (not a violation)", "vector": v.Name, "ts": ts, "policy": np.Name, "error": out.Err})
			}
			if must == "" && out.Accepted {
				e.sample("product-accept:"+v.Name, 1, map[string]any{"vector": v.Name, "family": "product", "ts": ts, "policy": np.Name, "result": resString(out)})
			} else if must != "" && i%9973 == 0 {
				e.sample("product-reject", 4, map[string]any{"vector": v.Name, "family": "product", "ts": ts, "policy": np.Name, "reference_must_reject": must, "result": resString(out)})
			}
		})
	}

	e.phase("product")
	// ---- every combination of collateral files ------------------------------
	if e.phaseOn("swap") {
		e.swapLayer(thorough)
	}
	e.phase("swap")

	// ---- mutation neighbourhoods -------------------------------------------
	for _, v := range u.Vecs {
		if !e.phaseOn("mutants") || e.expired() {
			break
		}
		fams := v.quoteFamilies(u, thorough)
		// Collateral of the trailing-data vector is the same as tdx-v4's; it is
		// still enumerated with that vector's quote and time in thorough.
		if thorough || v.Name != "tdx-v4-trailing" {
			fams = append(fams, v.collateralFamilies(u, thorough)...)
		}
		pts := v.mutantPoints()
		for _, f := range fams {
			if e.expired() {
				break
			}
			np := 1
			if thorough {
				np = len(pts)
			} else if f.Cheap {
				np = 3
			}
			entry := f.Entry
			if entry == "" {
				entry = v.Entry
			}
			fc := e.fam(f.Name)
			famStart := time.Now()
			for pi := 0; pi < np; pi++ {
				if e.expired() {
					break
				}
				p := pts[pi]
				must := mustReject(v.QF, v.TF, v.EF, v.CW, p.TS, p.Pol)
				f, pi := f, pi
				var sampled atomic.Bool
				parRange(f.N, r.Seed, func(i int) {
					if e.expired() {
						return
					}
					desc, in := f.Gen(i)
					if in == nil {
						return
					}
					if pi == 0 {
						if !e.noteDistinct(v, in) {
							return
						}
						fc.mutants.Add(1)
					} else if in.digest() == v.baseDig {
						return
					}
					m, v0 := must, v.V0
					if f.PerMutant {
						m, v0 = e.mutantExpectation(v, in, p, must)
					}
					out := e.checkV0(v, v0, f.Name, desc, entry, in, p, m)
					if pi == 0 && i == f.N/2 && sampled.CompareAndSwap(false, true) {
						e.sample("mutant:"+f.Name, 2, map[string]any{"vector": v.Name, "family": f.Name, "mutation": desc, "ts": p.TS, "policy": p.Name, "result": resString(out)})
					}
				})
			}
			if os.Getenv("PCSMC_DEBUG") != "" {
				fmt.Printf("  %-18s %-28s n=%-7d points=%d  %.2fs\n", v.Name, f.Name, f.N, np, time.Since(famStart).Seconds())
			}
		}
	}

	e.phase("mutants")

	// ---- synthetic bundles under a harness-owned root (last: replaces the
	// trust root and enables the production MRSIGNER blacklist, which blocks the
	// repository's SGX vector, signed with the Fortanix test key) -----------------
	e.synthLayer(thorough)
	e.phase("synthetic")

	// ---- node registration layer (on synthetic bundles whose report data
	// commits to a real RAK) -------------------------------------------------------
	if e.phaseOn("node") {
		e.nodeLayer(thorough)
	}
	e.phase("node")

	e.finishCoverage()
}

// expired reports (and records) that the soft deadline has passed.
// phaseOn: developer switch PCSMC_PHASES=product,swap,mutants,synthetic,node
// restricts the run to the named phases (reported as a cap).
func (e *engine) phaseOn(name string) bool {
	p := os.Getenv("PCSMC_PHASES")
	if p == "" {
		return true
	}
	e.r.Cap("PCSMC_PHASES=" + p)
	for _, x := range strings.Split(p, ",") {
		if x == name {
			return true
		}
	}
	return false
}

func (e *engine) expired() bool {
	if e.stop.Load() {
		return true
	}
	if e.r.Expired() {
		e.stop.Store(true)
		e.r.Cap("deadline")
		return true
	}
	return false
}

var lastPhase = time.Now()

func (e *engine) phase(name string) {
	e.r.Set("phase_"+name+"_s", float64(int(time.Since(lastPhase).Seconds()*10))/10)
	e.r.Set("phase_"+name+"_evaluations_cum", e.evals.Load())
	if os.Getenv("PCSMC_DEBUG") != "" {
		fmt.Printf("phase %-10s %.1fs evals(cum)=%d\n", name, time.Since(lastPhase).Seconds(), e.evals.Load())
	}
	lastPhase = time.Now()
}

func idString(o outcome) string {
	if o.VQ == nil {
		return ""
	}
	return o.VQ.Identity.String()
}

func resString(o outcome) string {
	switch {
	case o.Panic != "":
		return "panic"
	case o.Accepted:
		return "accepted, identity " + idString(o)
	}
	return "error: " + o.Err
}

func (e *engine) swapLayer(thorough bool) {
	u, r := e.u, e.r
	type comb struct {
		v    *vector
		t, q int
		c    string
		ts   int64
		p    tp
	}
	var cs []comb
	forever := permissive()
	forever.TCBValidityPeriod = 65535
	long := permissive()
	long.TCBValidityPeriod = 90
	pols := []tp{{0, permissive(), "permissive"}, {0, long, "permissive-90d"}, {0, forever, "permissive-65535d"}, {0, nil, "nil"}}
	tset := map[int64]bool{}
	for _, v := range u.Vecs {
		tset[v.T0] = true
		tset[v.TF.Issue] = true
		tset[v.TF.Issue+30*86400] = true
		tset[v.EF.Issue] = true
		tset[v.EF.Issue+30*86400] = true
		for _, w := range v.QF.PCK {
			tset[w.NB] = true
		}
	}
	var times []int64
	for t := range tset {
		times = append(times, t)
	}
	sort.Slice(times, func(i, j int) bool { return times[i] < times[j] })
	for _, v := range u.Vecs {
		for t := range u.TCB {
			for q := range u.QE {
				for _, c := range []string{"good", "bad"} {
					for _, ts := range times {
						for _, p := range pols {
							cs = append(cs, comb{v, t, q, c, ts, tp{ts, p.Pol, p.Name}})
						}
					}
				}
			}
		}
	}
	tfs := make([]*tcbFacts, len(u.TCB))
	efs := make([]*qeFacts, len(u.QE))
	for i := range u.TCB {
		tfs[i], _ = parseTCBFacts(u.TCB[i].Body)
	}
	for i := range u.QE {
		efs[i], _ = parseQEFacts(u.QE[i].Body)
	}
	cws := map[string][]win{}
	for k, c := range u.Certs {
		cws[k], _ = certWins(c)
	}
	parRange(len(cs), r.Seed, func(i int) {
		c := cs[i]
		in := c.v.Base
		in.TCBInfo, in.TCBSig = u.TCB[c.t].Body, u.TCB[c.t].Sig
		in.QEID, in.QESig = u.QE[c.q].Body, u.QE[c.q].Sig
		in.Certs = u.Certs[c.c]
		must := mustReject(c.v.QF, tfs[c.t], efs[c.q], cws[c.c], c.ts, c.p.Pol)
		if c.c == "bad" && must == "" {
			must = "TCB signing chain does not contain the key that signed the collateral"
		}
		desc := fmt.Sprintf("collateral := (%s, %s, certs %s)", u.TCB[c.t].Name, u.QE[c.q].Name, c.c)
		if e.noteDistinct(c.v, &in) {
			e.fam("swap").mutants.Add(1)
		}
		out := e.check(c.v, "swap", desc, c.v.Entry, &in, c.p, must)
		if must == "" && !out.Accepted && out.Panic == "" {
			e.overstrict.Add(1)
		}
		if out.Accepted && in.digest() != c.v.baseDig {
			e.sample("swap-accept", 2, map[string]any{"vector": c.v.Name, "family": "swap", "mutation": desc, "ts": c.ts, "policy": c.p.Name, "result": resString(out)})
		} else if i%1999 == 0 {
			e.sample("swap", 3, map[string]any{"vector": c.v.Name, "family": "swap", "mutation": desc, "ts": c.ts, "policy": c.p.Name, "reference_must_reject": must, "result": resString(out)})
		}
	})
}

func (e *engine) finishCoverage() {
	r := e.r
	r.Set("evaluations", e.evals.Load())
	r.Set("distinct_nontrivial", e.distinct.Load())
	r.Set("rejected", e.rejected.Load())
	r.Set("accepted_identical", e.acceptedID.Load())
	r.Set("reference_accepts_but_rejected", e.overstrict.Load())
	fams := map[string]any{}
	e.byFamily.Range(func(k, v any) bool {
		c := v.(*famCount)
		fams[k.(string)] = map[string]int64{"mutants": c.mutants.Load(), "evaluations": c.evals.Load(), "rejected": c.rejected.Load(), "accepted_identical": c.accepted.Load()}
		return true
	})
	r.Set("families", fams)
	e.accMu.Lock()
	var acc []string
	for k := range e.accSeen {
		acc = append(acc, k)
	}
	e.accMu.Unlock()
	sort.Strings(acc)
	r.Set("accepted_identical_mutants_real_vectors", len(acc))
	if len(acc) > 400 {
		acc = acc[:400]
	}
	r.Set("accepted_identical_mutants_first_400", acc)
	r.Set("tier_note", "quick: bit/byte families of every vector at the baseline point (valid time, permissive policy), small structural families at 3 (time, policy) points, policy product with reduced list shapes, node-level bit flips over the signed header+body; thorough: every family at 8 (time, policy) points, byte-value families also on collateral, full policy product with validity periods {0,1,30,90,65535}, node-level bit flips over the whole quote")
	r.Set("rule", "For each repository test vector (SGX v3 with PCK chain, TDX v4, TDX v4 with trailing data; negative: TDX out-of-date, SGX EPPID) and its Intel-signed collateral: every single-bit flip and every byte position x 8 boundary values of the quote; boundary values at every integer/type/length field; whole-field fills and copies; all pairs of structural positions; every truncation (plain and with length fields fixed up); extensions at every nesting level; v3<->v4 re-enveloping; every DER bit of the embedded PCK chain (re-encoded) and every chain of length <=3 over all certificates of the universe; every subset of quote sections spliced in from every other vector; every bit of the TCB-info and QE-identity bodies, every JSON token x replacement set, every truncation, every bit of both signatures (ASCII and raw), signature malleation/swaps; every bit of the TCB signing chain (PEM and DER) and every chain over the certificate pool; every (TCB info, QE identity, chain) combination of the universe x times x policies; the unmodified vectors at every validity-window boundary (-1 s, 0, +1 s) x the full policy product; synthetic bundles under a harness root: every TCB status x QE status x TDX-module status x FMSPC relation x single deviations; a TCB level matching product (platform SGX component SVNs uniform 3..6 with one component lowered, PCESVN 5..12, TEE TCB SVNs and TDX module versions 0..3, against three levels with every acceptable/unacceptable status triple) judged by a level selection written from Intel's description; node-level SGXAttestation.Verify. Each case = one execution of the real code. distinct_nontrivial = number of distinct mutated inputs (by SHA-256 of quote+collateral, different from the unmodified vector) that were executed and either rejected or accepted with identical verified identity and report data; evaluations = all executions (mutants x time/policy points, products).")
}

// replay re-executes one artefact.
func (e *engine) replay() {
	r := e.r
	v, err := ev.LoadReplay(r.Replay)
	if err != nil {
		r.HarnessError("replay: %v", err)
		return
	}
	b, _ := json.Marshal(v.Artefact)
	var a artefact
	if err := json.Unmarshal(b, &a); err != nil {
		r.HarnessError("replay: %v", err)
		return
	}
	if a.Node != nil {
		e.replayNode(&a, v.Key)
		return
	}
	if a.Trust == "synthetic" {
		pcs.BuildMrSignerBlacklist(false)
		if err := installRoot([]byte(a.RootPEM)); err != nil {
			r.HarnessError("replay: %v", err)
			return
		}
	}
	out := execute(a.Entry, &a.In, a.TS, a.Policy)
	var v0 = vqFromArtefact(&a)
	fmt.Printf("replay %s: %s\n", v.Key, resString(out))
	e.judge("replay", &a, v0, out)
	e.finishCoverage()
}
