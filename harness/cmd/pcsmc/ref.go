package main

// Reference model: an independent statement of when a (quote, collateral,
// time, policy) combination MUST be rejected.  It is written from the property
// text and Intel's published TCB evaluation rules, parses the collateral with
// its own structs and never calls the code under test.  It is used in one
// direction only: "reference says reject" ⇒ the implementation must return an
// error.  (The implementation being stricter is not a C18 violation.)

import (
	"bytes"
	"crypto/x509"
	"encoding/asn1"
	"encoding/binary"
	"encoding/hex"
	"encoding/json"
	"encoding/pem"
	"fmt"
	"strings"
	"time"

	"github.com/oasisprotocol/oasis-core/go/common/sgx/pcs"
)

type win struct{ NB, NA int64 }

type quoteFacts struct {
	Tee          uint32
	HasPCK       bool
	PCK          []win
	FMSPC        []byte
	Comp         [16]int32
	PCESVN       uint16
	TeeTcbSvn    [16]byte
	MrSeam       [48]byte
	MrSignerSeam [48]byte
	Debug        bool
	QEMrSigner   [32]byte
	QEProdID     uint16
	QEISVSVN     uint16
	QEMisc       uint32
	QEFlags      uint64
	QEXfrm       uint64
}

type refComp struct {
	SVN int32 `json:"svn"`
}
type refLevel struct {
	TCB struct {
		PCESVN uint16      `json:"pcesvn"`
		SGX    [16]refComp `json:"sgxtcbcomponents"`
		TDX    [16]refComp `json:"tdxtcbcomponents"`
	} `json:"tcb"`
	Status string `json:"tcbStatus"`
}
type refEnclLevel struct {
	TCB struct {
		ISVSVN uint16 `json:"isvsvn"`
	} `json:"tcb"`
	Status string `json:"tcbStatus"`
}
type refModule struct {
	ID     string         `json:"id"`
	Levels []refEnclLevel `json:"tcbLevels"`
}
type tcbFacts struct {
	ID        string      `json:"id"`
	Version   int         `json:"version"`
	IssueDate string      `json:"issueDate"`
	FMSPC     string      `json:"fmspc"`
	Eval      uint32      `json:"tcbEvaluationDataNumber"`
	Modules   []refModule `json:"tdxModuleIdentities"`
	Levels    []refLevel  `json:"tcbLevels"`
	Issue     int64       `json:"-"`
	NextUpd   int64       `json:"-"`
	Next      string      `json:"nextUpdate"`
}
type qeFacts struct {
	ID        string         `json:"id"`
	Version   int            `json:"version"`
	IssueDate string         `json:"issueDate"`
	Next      string         `json:"nextUpdate"`
	Eval      uint32         `json:"tcbEvaluationDataNumber"`
	Misc      string         `json:"miscselect"`
	MiscMask  string         `json:"miscselectMask"`
	Attr      string         `json:"attributes"`
	AttrMask  string         `json:"attributesMask"`
	MrSigner  string         `json:"mrsigner"`
	ProdID    uint16         `json:"isvprodid"`
	Levels    []refEnclLevel `json:"tcbLevels"`
	Issue     int64          `json:"-"`
	NextUpd   int64          `json:"-"`
}

func parseTime(s string) (int64, error) {
	t, err := time.Parse(time.RFC3339, s)
	if err != nil {
		return 0, err
	}
	return t.Unix(), nil
}

func parseTCBFacts(body []byte) (*tcbFacts, error) {
	var f tcbFacts
	if err := json.Unmarshal(body, &f); err != nil {
		return nil, err
	}
	var err error
	if f.Issue, err = parseTime(f.IssueDate); err != nil {
		return nil, err
	}
	if f.NextUpd, err = parseTime(f.Next); err != nil {
		return nil, err
	}
	return &f, nil
}

func parseQEFacts(body []byte) (*qeFacts, error) {
	var f qeFacts
	if err := json.Unmarshal(body, &f); err != nil {
		return nil, err
	}
	var err error
	if f.Issue, err = parseTime(f.IssueDate); err != nil {
		return nil, err
	}
	if f.NextUpd, err = parseTime(f.Next); err != nil {
		return nil, err
	}
	return &f, nil
}

func pemCerts(raw []byte) ([]*x509.Certificate, error) {
	var out []*x509.Certificate
	for {
		var b *pem.Block
		b, raw = pem.Decode(raw)
		if b == nil {
			return out, nil
		}
		c, err := x509.ParseCertificate(b.Bytes)
		if err != nil {
			return nil, err
		}
		out = append(out, c)
	}
}

func certWins(raw []byte) ([]win, error) {
	cs, err := pemCerts(raw)
	if err != nil {
		return nil, err
	}
	var w []win
	for _, c := range cs {
		w = append(w, win{c.NotBefore.Unix(), c.NotAfter.Unix()})
	}
	return w, nil
}

var (
	oidSGXExt = asn1.ObjectIdentifier{1, 2, 840, 113741, 1, 13, 1}
	oidFMSPC  = asn1.ObjectIdentifier{1, 2, 840, 113741, 1, 13, 1, 4}
	oidTCB    = asn1.ObjectIdentifier{1, 2, 840, 113741, 1, 13, 1, 2}
)

type refExt struct {
	ID  asn1.ObjectIdentifier
	Val asn1.RawValue
}

// parseQuoteFacts extracts, independently of the code under test, everything
// the reference model needs from an (unmodified) quote.
func parseQuoteFacts(q []byte) (*quoteFacts, error) {
	l, err := parseLayout(q)
	if err != nil {
		return nil, err
	}
	f := &quoteFacts{Tee: l.Tee}
	body := q[l.BodyOff : l.BodyOff+l.BodyLen]
	if l.Tee == teeTDX {
		copy(f.TeeTcbSvn[:], body[0:])
		copy(f.MrSeam[:], body[16:])
		copy(f.MrSignerSeam[:], body[64:])
		f.Debug = binary.LittleEndian.Uint64(body[120:])&1 != 0
	} else {
		f.Debug = binary.LittleEndian.Uint64(body[48:])&2 != 0
	}
	qe := q[l.QEOff : l.QEOff+sgxBody]
	f.QEMisc = binary.LittleEndian.Uint32(qe[16:])
	f.QEFlags = binary.LittleEndian.Uint64(qe[48:])
	f.QEXfrm = binary.LittleEndian.Uint64(qe[56:])
	copy(f.QEMrSigner[:], qe[128:])
	f.QEProdID = binary.LittleEndian.Uint16(qe[256:])
	f.QEISVSVN = binary.LittleEndian.Uint16(qe[258:])
	if binary.LittleEndian.Uint16(q[l.CTypeAt:]) != 5 {
		return f, nil
	}
	cs, err := pemCerts(q[l.CertOff : l.CertOff+l.CertLen])
	if err != nil || len(cs) != 3 {
		return nil, fmt.Errorf("PCK chain: %v (%d certs)", err, len(cs))
	}
	f.HasPCK = true
	for _, c := range cs {
		f.PCK = append(f.PCK, win{c.NotBefore.Unix(), c.NotAfter.Unix()})
	}
	for _, e := range cs[0].Extensions {
		if !e.Id.Equal(oidSGXExt) {
			continue
		}
		var exts []refExt
		if _, err := asn1.Unmarshal(e.Value, &exts); err != nil {
			return nil, err
		}
		for _, x := range exts {
			switch {
			case x.ID.Equal(oidFMSPC):
				f.FMSPC = append([]byte{}, x.Val.Bytes...)
			case x.ID.Equal(oidTCB):
				var comps []refExt
				if _, err := asn1.Unmarshal(x.Val.FullBytes, &comps); err != nil {
					return nil, err
				}
				for _, c := range comps {
					id := c.ID[len(c.ID)-1]
					var v int
					if id >= 1 && id <= 17 {
						if _, err := asn1.Unmarshal(c.Val.FullBytes, &v); err != nil {
							return nil, err
						}
					}
					switch {
					case id >= 1 && id <= 16:
						f.Comp[id-1] = int32(v)
					case id == 17:
						f.PCESVN = uint16(v)
					}
				}
			}
		}
	}
	if len(f.FMSPC) != 6 {
		return nil, fmt.Errorf("no FMSPC in PCK certificate")
	}
	return f, nil
}

func statusOKPlatform(s string) bool { return s == "UpToDate" || s == "SWHardeningNeeded" }

// refTCBReject evaluates Intel's TCB level selection; returns a reason when
// the platform / TDX module TCB status is not acceptable.
func refTCBReject(q *quoteFacts, t *tcbFacts) string {
	tdx := q.Tee == teeTDX
	var m *refLevel
	for i := range t.Levels {
		lv := &t.Levels[i]
		ok := q.PCESVN >= lv.TCB.PCESVN
		for c := 0; c < 16 && ok; c++ {
			if q.Comp[c] < lv.TCB.SGX[c].SVN {
				ok = false
			}
		}
		if ok && tdx {
			off := 0
			if q.TeeTcbSvn[1] != 0 {
				off = 2
			}
			for c := off; c < 16 && ok; c++ {
				if int32(q.TeeTcbSvn[c]) < lv.TCB.TDX[c].SVN {
					ok = false
				}
			}
		}
		if ok {
			m = lv
			break
		}
	}
	if m == nil {
		return "no TCB level matches the platform"
	}
	if !statusOKPlatform(m.Status) {
		return "platform TCB status " + m.Status
	}
	if tdx && t.ID == "TDX" && q.TeeTcbSvn[1] >= 1 {
		id := fmt.Sprintf("TDX_%02d", q.TeeTcbSvn[1])
		var mod *refModule
		for i := range t.Modules {
			if t.Modules[i].ID == id {
				mod = &t.Modules[i]
				break
			}
		}
		if mod == nil {
			return "TDX module identity " + id + " not listed"
		}
		st := ""
		for _, lv := range mod.Levels {
			if lv.TCB.ISVSVN <= uint16(q.TeeTcbSvn[0]) {
				st = lv.Status
				break
			}
		}
		if st != "UpToDate" {
			return "TDX module TCB status '" + st + "'"
		}
	}
	return ""
}

// refQEReject checks the QE report against the QE identity.
func refQEReject(q *quoteFacts, e *qeFacts) string {
	ms, err := hex.DecodeString(e.MrSigner)
	if err != nil || !bytes.Equal(ms, q.QEMrSigner[:]) {
		return "QE MRSIGNER differs from QE identity"
	}
	if e.ProdID != q.QEProdID {
		return "QE ISVPRODID differs from QE identity"
	}
	mi, e1 := hex.DecodeString(e.Misc)
	mm, e2 := hex.DecodeString(e.MiscMask)
	at, e3 := hex.DecodeString(e.Attr)
	am, e4 := hex.DecodeString(e.AttrMask)
	if e1 != nil || e2 != nil || e3 != nil || e4 != nil || len(mi) != 4 || len(mm) != 4 || len(at) != 16 || len(am) != 16 {
		return "malformed QE identity masks"
	}
	if q.QEMisc&binary.LittleEndian.Uint32(mm) != binary.LittleEndian.Uint32(mi) {
		return "QE miscselect differs from QE identity"
	}
	if q.QEFlags&binary.LittleEndian.Uint64(am) != binary.LittleEndian.Uint64(at) || q.QEXfrm&binary.LittleEndian.Uint64(am[8:]) != binary.LittleEndian.Uint64(at[8:]) {
		return "QE attributes differ from QE identity"
	}
	st := ""
	for _, lv := range e.Levels {
		if lv.TCB.ISVSVN <= q.QEISVSVN {
			st = lv.Status
			break
		}
	}
	if st != "UpToDate" {
		return "QE TCB status '" + st + "'"
	}
	return ""
}

func effPolicy(p *pcs.QuotePolicy) *pcs.QuotePolicy {
	if p == nil {
		return &pcs.QuotePolicy{TCBValidityPeriod: 30, MinTCBEvaluationDataNumber: pcs.DefaultMinTCBEvaluationDataNumber}
	}
	return p
}

func containsFold(l []string, s string) bool {
	for _, x := range l {
		if strings.EqualFold(x, s) {
			return true
		}
	}
	return false
}
func containsExact(l []string, s string) bool {
	for _, x := range l {
		if x == s {
			return true
		}
	}
	return false
}

// mustReject returns a non-empty reason when the combination must not be
// accepted according to the property.
func mustReject(q *quoteFacts, t *tcbFacts, e *qeFacts, tcbCerts []win, ts int64, pol *pcs.QuotePolicy) string {
	p := effPolicy(pol)
	if p.Disabled {
		return "policy: PCS quotes disabled"
	}
	if q.Debug {
		return "debug enclave in production mode"
	}
	if q.Tee == teeTDX {
		if p.TDX == nil {
			return "policy: TDX not allowed"
		}
		ok := false
		for _, m := range p.TDX.AllowedTdxModules {
			if (m.MrSeam == nil || *m.MrSeam == q.MrSeam) && m.MrSignerSeam == q.MrSignerSeam {
				ok = true
			}
		}
		if len(p.TDX.AllowedTdxModules) == 0 && q.MrSignerSeam == [48]byte{} {
			ok = true
		}
		if !ok {
			return "policy: TDX module not allowed"
		}
	}
	if !q.HasPCK {
		return "quote carries no PCK certificate chain"
	}
	for i, w := range q.PCK {
		if ts < w.NB || ts > w.NA {
			return fmt.Sprintf("PCK chain certificate %d outside its validity window", i)
		}
	}
	if len(tcbCerts) != 2 {
		return "TCB signing chain is not (signing cert, root)"
	}
	for i, w := range tcbCerts {
		if ts < w.NB || ts > w.NA {
			return fmt.Sprintf("TCB signing chain certificate %d outside its validity window", i)
		}
	}
	val := int64(p.TCBValidityPeriod) * 86400
	if ts < t.Issue {
		return "TCB info issued in the future"
	}
	if ts-t.Issue > val {
		return "TCB info expired (issue date + policy validity period)"
	}
	if ts < e.Issue {
		return "QE identity issued in the future"
	}
	if ts-e.Issue > val {
		return "QE identity expired (issue date + policy validity period)"
	}
	if t.Eval < p.MinTCBEvaluationDataNumber {
		return "TCB info evaluation data number below policy minimum"
	}
	if e.Eval < p.MinTCBEvaluationDataNumber {
		return "QE identity evaluation data number below policy minimum"
	}
	wantT, wantQ := "SGX", "QE"
	if q.Tee == teeTDX {
		wantT, wantQ = "TDX", "TD_QE"
	}
	if t.ID != wantT {
		return "TCB info is for another TEE type (" + t.ID + ")"
	}
	if e.ID != wantQ {
		return "QE identity is for another TEE type (" + e.ID + ")"
	}
	if t.Version != 3 {
		return "TCB info version"
	}
	if e.Version != 2 {
		return "QE identity version"
	}
	fm, err := hex.DecodeString(t.FMSPC)
	if err != nil || !bytes.Equal(fm, q.FMSPC) {
		return "TCB info FMSPC " + t.FMSPC + " is not the platform's " + hex.EncodeToString(q.FMSPC)
	}
	if len(p.FMSPCWhitelist) > 0 && !containsFold(p.FMSPCWhitelist, t.FMSPC) {
		return "policy: FMSPC not whitelisted"
	}
	if containsExact(p.FMSPCBlacklist, t.FMSPC) {
		return "policy: FMSPC blacklisted"
	}
	if r := refQEReject(q, e); r != "" {
		return r
	}
	if r := refTCBReject(q, t); r != "" {
		return r
	}
	return ""
}
