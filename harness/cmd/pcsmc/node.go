package main

// Node registration layer: node.SGXAttestation.Verify on synthetic bundles whose
// report data really commits to a runtime attestation key (RAK).  Enumerates the
// product of quote variant x RAK x allowed-enclave list x signed-attestation
// feature x attestation signature variant x height/age triple, and (thorough)
// every single-bit flip of the quote at node level.  Oracle: Verify may return
// nil only if the quote is acceptable, the verified report data commits to
// exactly this RAK, the verified identity is in the constraints and (feature
// on) the attestation signature by that RAK covers (report data, node id,
// height, REK) and is fresh.

import (
	"encoding/hex"
	"fmt"
	"runtime/debug"
	"sync/atomic"
	"time"

	"github.com/oasisprotocol/curve25519-voi/primitives/x25519"

	"github.com/oasisprotocol/oasis-core/go/common/cbor"
	"github.com/oasisprotocol/oasis-core/go/common/crypto/signature"
	memorySigner "github.com/oasisprotocol/oasis-core/go/common/crypto/signature/signers/memory"
	"github.com/oasisprotocol/oasis-core/go/common/node"
	"github.com/oasisprotocol/oasis-core/go/common/sgx"
	"github.com/oasisprotocol/oasis-core/go/common/sgx/pcs"
	"github.com/oasisprotocol/oasis-core/go/common/sgx/quote"
)

type nodeArtefact struct {
	RAK       string   `json:"rak"`
	NodeID    string   `json:"node_id"`
	REK       string   `json:"rek,omitempty"`
	Height    uint64   `json:"height"`
	SaHeight  uint64   `json:"attestation_height"`
	MaxAge    uint64   `json:"max_attestation_age"`
	Signed    bool     `json:"signed_attestations"`
	Signature string   `json:"signature"`
	Enclaves  []string `json:"enclaves"`
	MayAccept bool     `json:"may_accept"`
	Why       string   `json:"why,omitempty"`
}

func pkFromHex(s string) (pk signature.PublicKey) {
	b, _ := hex.DecodeString(s)
	copy(pk[:], b)
	return
}

// nodeVerify is the only place where the node-level code under test is called.
func nodeVerify(in *input, pol *pcs.QuotePolicy, tsec int64, na *nodeArtefact) (res string, accepted bool, panicked string) {
	defer func() {
		if p := recover(); p != nil {
			panicked = fmt.Sprintf("%v\n%s", p, firstLines(string(debug.Stack()), 24))
		}
	}()
	sa := node.SGXAttestation{
		Versioned: cbor.NewVersioned(1),
		Quote: quote.Quote{PCS: &pcs.QuoteBundle{Quote: in.Quote, TCB: pcs.TCBBundle{
			TCBInfo:      pcs.SignedTCBInfo{TCBInfo: in.TCBInfo, Signature: in.TCBSig},
			QEIdentity:   pcs.SignedQEIdentity{EnclaveIdentity: in.QEID, Signature: in.QESig},
			Certificates: in.Certs,
		}}},
		Height: na.SaHeight,
	}
	sb, _ := hex.DecodeString(na.Signature)
	copy(sa.Signature[:], sb)
	sc := &node.SGXConstraints{Versioned: cbor.NewVersioned(1), Policy: &quote.Policy{PCS: pol}, MaxAttestationAge: na.MaxAge}
	for _, e := range na.Enclaves {
		var id sgx.EnclaveIdentity
		if err := id.UnmarshalHex(e); err != nil {
			panic(err)
		}
		sc.Enclaves = append(sc.Enclaves, id)
	}
	cfg := &node.TEEFeatures{SGX: node.TEEFeaturesSGX{PCS: true, TDX: true, SignedAttestations: na.Signed}}
	var rek *x25519.PublicKey
	if na.REK != "" {
		var k x25519.PublicKey
		b, _ := hex.DecodeString(na.REK)
		copy(k[:], b)
		rek = &k
	}
	err := sa.Verify(cfg, time.Unix(tsec, 0), na.Height, sc, pkFromHex(na.RAK), rek, pkFromHex(na.NodeID))
	if err != nil {
		return err.Error(), false, ""
	}
	return "", true, ""
}

func (e *engine) judgeNode(fam string, a *artefact, res string, accepted bool, panicked string) {
	e.evals.Add(1)
	fc := e.fam(fam)
	fc.evals.Add(1)
	key := fmt.Sprintf("%s/%s/%s", a.Vector, fam, a.Mutation)
	switch {
	case panicked != "":
		e.violate(key+"/panic", "node-level verification panicked: "+firstLines(panicked, 3), a, nil)
	case accepted && !a.Node.MayAccept:
		e.violate(key+"/node-accepted", "SGXAttestation.Verify returned nil although: "+a.Node.Why, a, nil)
	case accepted:
		e.acceptedID.Add(1)
		fc.accepted.Add(1)
		e.outcome("node: accept")
	default:
		e.rejected.Add(1)
		fc.rejected.Add(1)
		e.outcome("node reject: " + errClass(res))
	}
}

func (e *engine) nodeLayer(thorough bool) {
	r := e.r
	g := e.gen
	if g == nil {
		return
	}
	rakS := memorySigner.NewTestSigner("pcsmc rak")
	otherS := memorySigner.NewTestSigner("pcsmc other rak")
	rak, other := rakS.Public(), otherS.Public()
	nodeID := memorySigner.NewTestSigner("pcsmc node").Public()
	otherNode := memorySigner.NewTestSigner("pcsmc other node").Public()
	var rek, rek2 x25519.PublicKey
	copy(rek[:], []byte("pcsmc runtime encryption key 32b"))
	copy(rek2[:], []byte("pcsmc other encryption key   32b"))
	rd := func(k signature.PublicKey, upper byte) string {
		h := node.HashRAK(k)
		b := make([]byte, 64)
		copy(b, h[:])
		for i := 32; i < 64; i++ {
			b[i] = upper
		}
		return hex.EncodeToString(b)
	}
	type qv struct {
		name string
		spec func(t string) synthSpec
		ok   bool
		why  string
	}
	mk := func(t string) synthSpec {
		m := ""
		if t == "tdx4" {
			m = "UpToDate"
		}
		return synthSpec{Tee: t, PlatStatus: "UpToDate", QEStatus: "UpToDate", ModStatus: m, FMSPC: "equal", RD: rd(rak, 0)}
	}
	qvs := []qv{
		{"good", mk, true, ""},
		{"upper-half-differs", func(t string) synthSpec { s := mk(t); s.RD = rd(rak, 0x5a); return s }, true, ""},
		{"bound-to-other-rak", func(t string) synthSpec { s := mk(t); s.RD = rd(other, 0); return s }, true, ""},
		{"body-changed-after-signing", func(t string) synthSpec { s := mk(t); s.Dev = "body-changed-after-signing"; return s }, false, "the quote signature does not cover the report body"},
		{"attkey-not-bound", func(t string) synthSpec { s := mk(t); s.Dev = "attkey-not-bound-in-qe-report"; return s }, false, "the attestation key is not bound by the QE report"},
		{"platform-out-of-date", func(t string) synthSpec { s := mk(t); s.PlatStatus = "OutOfDate"; return s }, false, "the platform TCB status is OutOfDate"},
		{"tcbinfo-expired", func(t string) synthSpec { s := mk(t); s.Dev = "tcbinfo-expired"; return s }, false, "the TCB info is expired"},
	}
	type hv struct{ sa, h, max uint64 }
	hvs := []hv{{10, 10, 5}, {10, 15, 5}, {10, 16, 5}, {11, 10, 5}, {10, 10, 0}, {10, 11, 0}, {0, 1 << 63, 1<<64 - 1}}
	sigKinds := []string{"valid", "other-key", "other-node", "other-height", "other-rek", "nil-rek", "other-report-data", "zero"}
	type ncase struct {
		tee    string
		q      qv
		rakOK  bool
		encl   string
		signed bool
		sig    string
		h      hv
	}
	var cases []ncase
	for _, t := range []string{"sgx3", "tdx4"} {
		for _, q := range qvs {
			for _, rk := range []bool{true, false} {
				for _, en := range []string{"id", "none", "other", "swapped", "other+id"} {
					for _, sg := range []bool{false, true} {
						kinds := sigKinds
						hs := hvs
						if !sg {
							kinds, hs = []string{"zero", "valid"}, []hv{hvs[0], hvs[3]}
						}
						for _, k := range kinds {
							for _, h := range hs {
								cases = append(cases, ncase{t, q, rk, en, sg, k, h})
							}
						}
					}
				}
			}
		}
	}
	base := map[string]*sgx.VerifiedQuote{}
	for _, t := range []string{"sgx3", "tdx4"} {
		c := g.build(mk(t))
		out := execute("bundle", &c.In, synthT, c.Pol)
		e.evals.Add(1)
		if !out.Accepted {
			r.HarnessError("node layer: synthetic baseline %s not accepted: %s", t, out.Err)
			return
		}
		base[t] = out.VQ
	}
	sign := func(s signature.Signer, reportData []byte, nid signature.PublicKey, h uint64, k *x25519.PublicKey) string {
		sig, err := s.ContextSign(node.AttestationSignatureContext, node.HashAttestation(reportData, nid, h, k))
		if err != nil {
			panic(err)
		}
		return hex.EncodeToString(sig)
	}
	var okSeen atomic.Int64
	build := func(c ncase) (*artefact, synthCase) {
		sc := g.build(c.q.spec(c.tee))
		id := base[c.tee].Identity
		var otherID, swapped sgx.EnclaveIdentity
		otherID = id
		otherID.MrEnclave[0] ^= 1
		copy(swapped.MrEnclave[:], id.MrSigner[:])
		copy(swapped.MrSigner[:], id.MrEnclave[:])
		var encl []string
		switch c.encl {
		case "id":
			encl = []string{id.String()}
		case "other":
			encl = []string{otherID.String()}
		case "swapped":
			encl = []string{swapped.String()}
		case "other+id":
			encl = []string{otherID.String(), id.String()}
		}
		rdb, _ := hex.DecodeString(c.q.spec(c.tee).RD)
		var sig string
		switch c.sig {
		case "valid":
			sig = sign(rakS, rdb, nodeID, c.h.sa, &rek)
		case "other-key":
			sig = sign(otherS, rdb, nodeID, c.h.sa, &rek)
		case "other-node":
			sig = sign(rakS, rdb, otherNode, c.h.sa, &rek)
		case "other-height":
			sig = sign(rakS, rdb, nodeID, c.h.sa+1, &rek)
		case "other-rek":
			sig = sign(rakS, rdb, nodeID, c.h.sa, &rek2)
		case "nil-rek":
			sig = sign(rakS, rdb, nodeID, c.h.sa, nil)
		case "other-report-data":
			o := append([]byte{}, rdb...)
			o[63] ^= 1
			sig = sign(rakS, o, nodeID, c.h.sa, &rek)
		case "zero":
			sig = hex.EncodeToString(make([]byte, 64))
		}
		useRAK := rak
		if !c.rakOK {
			useRAK = other
		}
		na := &nodeArtefact{RAK: hex.EncodeToString(useRAK[:]), NodeID: hex.EncodeToString(nodeID[:]), REK: hex.EncodeToString(rek[:]),
			Height: c.h.h, SaHeight: c.h.sa, MaxAge: c.h.max, Signed: c.signed, Signature: sig, Enclaves: encl}
		var why []string
		if !c.q.ok {
			why = append(why, c.q.why)
		}
		if !c.rakOK && c.q.name != "bound-to-other-rak" || c.rakOK && c.q.name == "bound-to-other-rak" {
			why = append(why, "the verified report data does not commit to the node's RAK")
		}
		if c.encl != "id" && c.encl != "other+id" {
			why = append(why, "the verified enclave identity is not in the constraints")
		}
		if c.signed {
			// The signature must verify under the RAK handed to Verify.
			signerIsRAK := (c.sig != "other-key") == c.rakOK
			if c.sig == "zero" || !signerIsRAK || c.sig == "other-node" || c.sig == "other-height" || c.sig == "other-rek" || c.sig == "nil-rek" || c.sig == "other-report-data" {
				why = append(why, "the attestation signature does not cover (report data, node id, height, REK) under the RAK")
			}
			if c.h.sa > c.h.h {
				why = append(why, "the attestation height is in the future")
			} else if c.h.h-c.h.sa > c.h.max {
				why = append(why, "the attestation is older than the maximum age")
			}
		}
		na.MayAccept = len(why) == 0
		if len(why) > 0 {
			na.Why = why[0]
		}
		a := &artefact{Vector: "synthetic-" + c.tee, Mutation: fmt.Sprintf("node quote=%s rak=%v enclaves=%s signed=%v sig=%s heights=%d/%d/%d", c.q.name, c.rakOK, c.encl, c.signed, c.sig, c.h.sa, c.h.h, c.h.max),
			Entry: "node", Trust: "synthetic", TS: synthT, Policy: sc.Pol, PolName: "synthetic", In: sc.In, Node: na}
		return a, sc
	}
	parRange(len(cases), r.Seed, func(i int) {
		a, sc := build(cases[i])
		res, acc, pan := nodeVerify(&sc.In, sc.Pol, synthT, a.Node)
		e.judgeNode("node/product", a, res, acc, pan)
		if acc && a.Node.MayAccept {
			okSeen.Add(1)
		}
		if a.Node.MayAccept && !acc && pan == "" {
			e.overstrict.Add(1)
			e.sample("overstrict", 4, map[string]any{"note": "node level stricter than the reference verdict (not a violation)", "case": a.Mutation, "error": res})
		}
		if i%2003 == 0 {
			e.sample("node", 4, map[string]any{"vector": a.Vector, "family": "node/product", "case": a.Mutation, "may_accept": a.Node.MayAccept, "result": res})
		}
	})
	r.Set("node_cases", int64(len(cases)))
	r.Set("node_accepted", okSeen.Load())
	if okSeen.Load() == 0 {
		r.HarnessError("node layer: no case was accepted (vacuous)")
	}

	// Bit flips of the quote at node level (signed attestation on, valid signature).
	for _, t := range []string{"sgx3", "tdx4"} {
		a0, sc := build(ncase{t, qvs[0], true, "id", true, "valid", hvs[0]})
		q := sc.In.Quote
		l, _ := parseLayout(q)
		lo, hi := 0, 8*(l.BodyOff+l.BodyLen) // quick: the signed header and report body
		if thorough {
			hi = 8 * len(q)
		}
		v := &vector{Name: a0.Vector, Base: sc.In, baseDig: sc.In.digest()}
		parRange(hi-lo, r.Seed, func(i int) {
			in := sc.In
			in.Quote = flipBit(q, lo+i)
			if e.noteDistinct(v, &in) {
				e.fam("node/quote-bit").mutants.Add(1)
			}
			na := *a0.Node
			// nil is allowed only if the pcs layer accepts the flipped quote with
			// identical identity and report data (bits not covered by a signature).
			out := execute("bundle", &in, synthT, sc.Pol)
			e.evals.Add(1)
			na.MayAccept = out.Accepted && sameVQ(out.VQ, base[t])
			na.Why = "the pcs layer rejects this quote or verifies different identity / report data"
			a := &artefact{Vector: a0.Vector, Mutation: fmt.Sprintf("node-level quote byte %d bit %d", (lo+i)/8, (lo+i)%8), Entry: "node", Trust: "synthetic", TS: synthT, Policy: sc.Pol, PolName: "synthetic", In: in, Node: &na}
			res, acc, pan := nodeVerify(&in, sc.Pol, synthT, &na)
			e.judgeNode("node/quote-bit", a, res, acc, pan)
		})
	}
}

func (e *engine) replayNode(a *artefact, key string) {
	pcs.BuildMrSignerBlacklist(false)
	if err := installRoot([]byte(a.RootPEM)); err != nil {
		e.r.HarnessError("replay: %v", err)
		return
	}
	res, acc, pan := nodeVerify(&a.In, a.Policy, a.TS, a.Node)
	fmt.Printf("replay %s: accepted=%v %s %s\n", key, acc, res, firstLines(pan, 2))
	e.judgeNode("replay", a, res, acc, pan)
	e.finishCoverage()
}
