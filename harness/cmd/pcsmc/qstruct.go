package main

// Independent description of the quote wire layout (Intel SGX/TDX DCAP quote
// v3 / v4 with ECDSA-P256 signature data).  Used to name structural positions
// and to re-assemble quotes whose sections were replaced (with or without
// fixing up the enclosing length fields).  Nothing here calls the code under
// test.

import (
	"encoding/binary"
	"fmt"
)

const (
	hdrLen    = 48
	sgxBody   = 384
	tdBody    = 584
	teeSGX    = 0
	teeTDX    = 0x81
	sigFixLen = 64
)

// field is a named byte range of the quote.
type field struct {
	Name string
	Off  int
	Len  int
	Kind string // "uN" little endian integer of N bits | "bytes" | "len" (length field) | "type"
}

// qlayout holds the offsets of every structural element.
type qlayout struct {
	Version  int
	Tee      uint32
	BodyOff  int
	BodyLen  int
	SigLenAt int // u32
	SigOff   int // start of signature data
	SigLen   int
	OuterAt  int // v4: offset of the (type u16, size u32) envelope; -1 for v3
	QEOff    int // QE report (384)
	QESigOff int // 64
	AuthLnAt int // u16
	AuthOff  int
	AuthLen  int
	CTypeAt  int // u16
	CSizeAt  int // u32
	CertOff  int
	CertLen  int
	TailOff  int // bytes after the certification data but inside the signature data
	TailLen  int
	TrailOff int // bytes after the signature data
	TrailLen int
	Total    int
}

func parseLayout(q []byte) (*qlayout, error) {
	l := &qlayout{OuterAt: -1, Total: len(q)}
	if len(q) < hdrLen+sgxBody+4 {
		return nil, fmt.Errorf("short quote")
	}
	l.Version = int(binary.LittleEndian.Uint16(q[0:]))
	switch l.Version {
	case 3:
		l.Tee = teeSGX
	case 4:
		l.Tee = binary.LittleEndian.Uint32(q[4:])
	default:
		return nil, fmt.Errorf("version %d", l.Version)
	}
	l.BodyOff = hdrLen
	switch l.Tee {
	case teeSGX:
		l.BodyLen = sgxBody
	case teeTDX:
		l.BodyLen = tdBody
	default:
		return nil, fmt.Errorf("tee %x", l.Tee)
	}
	l.SigLenAt = l.BodyOff + l.BodyLen
	if len(q) < l.SigLenAt+4 {
		return nil, fmt.Errorf("short quote")
	}
	l.SigLen = int(binary.LittleEndian.Uint32(q[l.SigLenAt:]))
	l.SigOff = l.SigLenAt + 4
	if l.SigOff+l.SigLen > len(q) {
		return nil, fmt.Errorf("sig len")
	}
	o := l.SigOff + 2*sigFixLen
	if l.Version == 4 {
		l.OuterAt = o
		o += 6
	}
	l.QEOff = o
	o += sgxBody
	l.QESigOff = o
	o += sigFixLen
	l.AuthLnAt = o
	if o+2 > len(q) {
		return nil, fmt.Errorf("short")
	}
	l.AuthLen = int(binary.LittleEndian.Uint16(q[o:]))
	o += 2
	l.AuthOff = o
	o += l.AuthLen
	l.CTypeAt = o
	o += 2
	l.CSizeAt = o
	if o+4 > len(q) {
		return nil, fmt.Errorf("short")
	}
	l.CertLen = int(binary.LittleEndian.Uint32(q[o:]))
	o += 4
	l.CertOff = o
	o += l.CertLen
	if o > l.SigOff+l.SigLen {
		return nil, fmt.Errorf("cert data beyond signature data")
	}
	l.TailOff = o
	l.TailLen = l.SigOff + l.SigLen - o
	l.TrailOff = l.SigOff + l.SigLen
	l.TrailLen = len(q) - l.TrailOff
	return l, nil
}

// sections is a quote cut into its parts.
type sections struct {
	Version  int
	Header   []byte
	Body     []byte
	QSig     []byte
	AttKey   []byte
	QEReport []byte
	QESig    []byte
	Auth     []byte
	CType    uint16
	Cert     []byte
	Tail     []byte
	Trail    []byte
	// Raw length fields as found (used when not fixing up).
	RawSigLen   uint32
	RawOuterTyp uint16
	RawOuterLen uint32
	RawAuthLen  uint16
	RawCertLen  uint32
}

func cut(q []byte, l *qlayout) *sections {
	c := func(o, n int) []byte { return append([]byte{}, q[o:o+n]...) }
	s := &sections{
		Version: l.Version, Header: c(0, hdrLen), Body: c(l.BodyOff, l.BodyLen),
		QSig: c(l.SigOff, 64), AttKey: c(l.SigOff+64, 64), QEReport: c(l.QEOff, sgxBody), QESig: c(l.QESigOff, 64),
		Auth: c(l.AuthOff, l.AuthLen), CType: binary.LittleEndian.Uint16(q[l.CTypeAt:]), Cert: c(l.CertOff, l.CertLen),
		Tail: c(l.TailOff, l.TailLen), Trail: c(l.TrailOff, l.TrailLen),
		RawSigLen: uint32(l.SigLen), RawAuthLen: uint16(l.AuthLen), RawCertLen: uint32(l.CertLen),
	}
	if l.OuterAt >= 0 {
		s.RawOuterTyp = binary.LittleEndian.Uint16(q[l.OuterAt:])
		s.RawOuterLen = binary.LittleEndian.Uint32(q[l.OuterAt+2:])
	}
	return s
}

func (s *sections) clone() *sections {
	c := *s
	for _, p := range []*[]byte{&c.Header, &c.Body, &c.QSig, &c.AttKey, &c.QEReport, &c.QESig, &c.Auth, &c.Cert, &c.Tail, &c.Trail} {
		*p = append([]byte{}, (*p)...)
	}
	return &c
}

// build re-assembles the quote.  fix selects which enclosing length fields are
// recomputed: bit 0 signature data length, bit 1 v4 envelope size, bit 2
// authentication data size, bit 3 certification data size.
func (s *sections) build(fix int) []byte {
	u16 := func(v uint16) []byte { b := make([]byte, 2); binary.LittleEndian.PutUint16(b, v); return b }
	u32 := func(v uint32) []byte { b := make([]byte, 4); binary.LittleEndian.PutUint32(b, v); return b }
	authLen, certLen := s.RawAuthLen, s.RawCertLen
	if fix&4 != 0 {
		authLen = uint16(len(s.Auth))
	}
	if fix&8 != 0 {
		certLen = uint32(len(s.Cert))
	}
	var inner []byte
	inner = append(inner, s.QEReport...)
	inner = append(inner, s.QESig...)
	inner = append(inner, u16(authLen)...)
	inner = append(inner, s.Auth...)
	inner = append(inner, u16(s.CType)...)
	inner = append(inner, u32(certLen)...)
	inner = append(inner, s.Cert...)
	inner = append(inner, s.Tail...)
	var sig []byte
	sig = append(sig, s.QSig...)
	sig = append(sig, s.AttKey...)
	if s.Version == 4 {
		ol := s.RawOuterLen
		if fix&2 != 0 {
			ol = uint32(len(inner))
		}
		sig = append(sig, u16(s.RawOuterTyp)...)
		sig = append(sig, u32(ol)...)
	}
	sig = append(sig, inner...)
	sl := s.RawSigLen
	if fix&1 != 0 {
		sl = uint32(len(sig))
	}
	var q []byte
	q = append(q, s.Header...)
	q = append(q, s.Body...)
	q = append(q, u32(sl)...)
	q = append(q, sig...)
	q = append(q, s.Trail...)
	return q
}

// reportFields names the fields of an SGX enclave report body at base offset o.
func sgxReportFields(prefix string, o int) []field {
	return []field{
		{prefix + "cpusvn", o + 0, 16, "bytes"},
		{prefix + "miscselect", o + 16, 4, "u32"},
		{prefix + "reserved1", o + 20, 28, "bytes"},
		{prefix + "attributes.flags", o + 48, 8, "u64"},
		{prefix + "attributes.xfrm", o + 56, 8, "u64"},
		{prefix + "mrenclave", o + 64, 32, "bytes"},
		{prefix + "reserved2", o + 96, 32, "bytes"},
		{prefix + "mrsigner", o + 128, 32, "bytes"},
		{prefix + "reserved3", o + 160, 96, "bytes"},
		{prefix + "isvprodid", o + 256, 2, "u16"},
		{prefix + "isvsvn", o + 258, 2, "u16"},
		{prefix + "reserved4", o + 260, 60, "bytes"},
		{prefix + "reportdata", o + 320, 64, "bytes"},
	}
}

func tdReportFields(prefix string, o int) []field {
	fs := []field{
		{prefix + "teetcbsvn", o + 0, 16, "bytes"},
		{prefix + "mrseam", o + 16, 48, "bytes"},
		{prefix + "mrsignerseam", o + 64, 48, "bytes"},
		{prefix + "seamattributes", o + 112, 8, "u64"},
		{prefix + "tdattributes", o + 120, 8, "u64"},
		{prefix + "xfam", o + 128, 8, "u64"},
		{prefix + "mrtd", o + 136, 48, "bytes"},
		{prefix + "mrconfigid", o + 184, 48, "bytes"},
		{prefix + "mrowner", o + 232, 48, "bytes"},
		{prefix + "mrownerconfig", o + 280, 48, "bytes"},
		{prefix + "rtmr0", o + 328, 48, "bytes"},
		{prefix + "rtmr1", o + 376, 48, "bytes"},
		{prefix + "rtmr2", o + 424, 48, "bytes"},
		{prefix + "rtmr3", o + 472, 48, "bytes"},
		{prefix + "reportdata", o + 520, 64, "bytes"},
	}
	return fs
}

// fields lists every structural position of the quote.
func (l *qlayout) fields() []field {
	fs := []field{
		{"hdr.version", 0, 2, "type"},
		{"hdr.attkeytype", 2, 2, "type"},
	}
	if l.Version == 3 {
		fs = append(fs, field{"hdr.reserved", 4, 4, "type"}, field{"hdr.qesvn", 8, 2, "u16"}, field{"hdr.pcesvn", 10, 2, "u16"})
	} else {
		fs = append(fs, field{"hdr.teetype", 4, 4, "type"}, field{"hdr.reserved1", 8, 2, "u16"}, field{"hdr.reserved2", 10, 2, "u16"})
	}
	fs = append(fs, field{"hdr.qevendor", 12, 16, "bytes"}, field{"hdr.userdata", 28, 20, "bytes"})
	if l.Tee == teeTDX {
		fs = append(fs, tdReportFields("body.", l.BodyOff)...)
	} else {
		fs = append(fs, sgxReportFields("body.", l.BodyOff)...)
	}
	fs = append(fs, field{"siglen", l.SigLenAt, 4, "len"},
		field{"sig.quotesig", l.SigOff, 64, "bytes"}, field{"sig.attkey", l.SigOff + 64, 64, "bytes"})
	if l.OuterAt >= 0 {
		fs = append(fs, field{"sig.outer.type", l.OuterAt, 2, "type"}, field{"sig.outer.size", l.OuterAt + 2, 4, "len"})
	}
	fs = append(fs, sgxReportFields("qe.", l.QEOff)...)
	fs = append(fs, field{"qe.sig", l.QESigOff, 64, "bytes"}, field{"qe.authsize", l.AuthLnAt, 2, "len"})
	if l.AuthLen > 0 {
		fs = append(fs, field{"qe.authdata", l.AuthOff, l.AuthLen, "bytes"})
	}
	fs = append(fs, field{"cert.type", l.CTypeAt, 2, "type"}, field{"cert.size", l.CSizeAt, 4, "len"})
	return fs
}
