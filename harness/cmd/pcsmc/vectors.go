package main

import (
	"bytes"
	"crypto/sha256"
	"encoding/json"
	"fmt"
	"os"
	"path/filepath"
	"regexp"
	"runtime/debug"
	"strings"
	"sync"
	"sync/atomic"
	"time"

	"github.com/oasisprotocol/oasis-core/go/common/sgx"
	"github.com/oasisprotocol/oasis-core/go/common/sgx/pcs"

	"verif/harness/internal/ev"
)

const testdata = "/repo/go/common/sgx/pcs/testdata"

// input is everything an attacker controls: the quote and its collateral.
type input struct {
	Quote   []byte `json:"quote"`
	TCBInfo []byte `json:"tcb_info"`
	TCBSig  string `json:"tcb_sig"`
	QEID    []byte `json:"qe_id"`
	QESig   string `json:"qe_sig"`
	Certs   []byte `json:"certs"`
}

func (in *input) digest() [16]byte {
	h := sha256.New()
	for _, p := range [][]byte{in.Quote, in.TCBInfo, []byte(in.TCBSig), in.QEID, []byte(in.QESig), in.Certs} {
		var l [4]byte
		l[0], l[1], l[2], l[3] = byte(len(p)), byte(len(p)>>8), byte(len(p)>>16), byte(len(p)>>24)
		h.Write(l[:])
		h.Write(p)
	}
	var d [16]byte
	copy(d[:], h.Sum(nil))
	return d
}

// collateral is one named collateral file of the repo's test data.
type signedJSON struct {
	Name string
	Body []byte
	Sig  string
}

type vector struct {
	Name     string
	Entry    string // "bundle": QuoteBundle.Verify; "trailing": UnmarshalBinaryWithTrailing(true)+Verify
	Base     input
	T0       int64
	Positive bool
	V0       *sgx.VerifiedQuote
	QF       *quoteFacts
	TF       *tcbFacts
	EF       *qeFacts
	CW       []win
	L        *qlayout
	Trust    string // "intel" | "synthetic"
	baseDig  [16]byte
	tcbName  string
	qeName   string
}

// tp is one (time, policy) evaluation point.
type tp struct {
	TS   int64
	Pol  *pcs.QuotePolicy
	Name string
}

func mustRead(name string) []byte {
	b, err := os.ReadFile(filepath.Join(testdata, name))
	if err != nil {
		panic(err)
	}
	return b
}

func loadSigned(name, key string) signedJSON {
	var m map[string]json.RawMessage
	if err := json.Unmarshal(mustRead(name), &m); err != nil {
		panic(err)
	}
	var sig string
	if err := json.Unmarshal(m["signature"], &sig); err != nil {
		panic(err)
	}
	return signedJSON{Name: name, Body: []byte(m[key]), Sig: sig}
}

type universe struct {
	TCB   []signedJSON
	QE    []signedJSON
	Certs map[string][]byte
	Vecs  []*vector
}

func loadUniverse() *universe {
	u := &universe{Certs: map[string][]byte{}}
	for _, n := range []string{"tcb_info_v3_fmspc_00606A000000.json", "tcb_info_v3_tdx_fmspc_50806F000000.json", "tcb_info_v3_tdx_fmspc_C0806F000000.json"} {
		u.TCB = append(u.TCB, loadSigned(n, "tcbInfo"))
	}
	for _, n := range []string{"qe_identity_v2.json", "qe_identity_v2_tdx.json", "qe_identity_v2_tdx2.json"} {
		u.QE = append(u.QE, loadSigned(n, "enclaveIdentity"))
	}
	u.Certs["good"] = mustRead("tcb_info_v3_fmspc_00606A000000_certs.pem")
	u.Certs["bad"] = mustRead("tcb_info_v3_fmspc_00606A000000_certs_bad.pem")
	mk := func(name, entry, quote string, tcb, qe int, t0 int64, positive bool) {
		v := &vector{Name: name, Entry: entry, T0: t0, Positive: positive, Trust: "intel", tcbName: u.TCB[tcb].Name, qeName: u.QE[qe].Name}
		v.Base = input{Quote: mustRead(quote), TCBInfo: u.TCB[tcb].Body, TCBSig: u.TCB[tcb].Sig, QEID: u.QE[qe].Body, QESig: u.QE[qe].Sig, Certs: u.Certs["good"]}
		u.Vecs = append(u.Vecs, v)
	}
	// Times are the ones used by quote_test.go (the trailing-data vector is not
	// verified there; its PCK certificate starts 2024-09-20, the collateral of
	// 2024-09-02 is valid for 30 days).
	mk("sgx-v3", "bundle", "quote_v3_ecdsa_p256_pck_chain.bin", 0, 0, 1671497404, true)
	mk("tdx-v4", "bundle", "quote_v4_tdx_ecdsa_p256.bin", 2, 2, 1725263032, true)
	mk("tdx-v4-trailing", "trailing", "quote_v4_tdx_ecdsa_p256_trailing.bin", 2, 2, 1727000000, true)
	mk("tdx-v4-outofdate", "bundle", "quote_v4_tdx_ecdsa_p256_out_of_date.bin", 1, 1, 1687091776, false)
	mk("sgx-v3-eppid", "bundle", "quote_v3_ecdsa_p256_eppid.bin", 0, 0, 1671497404, false)
	return u
}

// permissive is the permissive-but-valid baseline policy: nothing is filtered
// by policy except what the property itself demands (validity window).
func permissive() *pcs.QuotePolicy {
	return &pcs.QuotePolicy{TCBValidityPeriod: 30, MinTCBEvaluationDataNumber: 0, TDX: &pcs.TdxQuotePolicy{}}
}

func (v *vector) prepare() error {
	var err error
	if v.L, err = parseLayout(v.Base.Quote); err != nil {
		return fmt.Errorf("%s: layout: %w", v.Name, err)
	}
	if v.QF, err = parseQuoteFacts(v.Base.Quote); err != nil {
		return fmt.Errorf("%s: quote facts: %w", v.Name, err)
	}
	if v.TF, err = parseTCBFacts(v.Base.TCBInfo); err != nil {
		return fmt.Errorf("%s: tcb facts: %w", v.Name, err)
	}
	if v.EF, err = parseQEFacts(v.Base.QEID); err != nil {
		return fmt.Errorf("%s: qe facts: %w", v.Name, err)
	}
	if v.CW, err = certWins(v.Base.Certs); err != nil {
		return fmt.Errorf("%s: certs: %w", v.Name, err)
	}
	v.baseDig = v.Base.digest()
	return nil
}

// outcome of one execution of the real verification code.
type outcome struct {
	Accepted bool
	VQ       *sgx.VerifiedQuote
	Err      string
	Panic    string
}

// execute runs the code under test on one input.  All real-code calls of the
// pcs layers go through here.
func execute(entry string, in *input, ts int64, pol *pcs.QuotePolicy) (out outcome) {
	defer func() {
		if p := recover(); p != nil {
			out = outcome{Panic: fmt.Sprintf("%v\n%s", p, firstLines(string(debug.Stack()), 24))}
		}
	}()
	tcb := pcs.TCBBundle{
		TCBInfo:      pcs.SignedTCBInfo{TCBInfo: in.TCBInfo, Signature: in.TCBSig},
		QEIdentity:   pcs.SignedQEIdentity{EnclaveIdentity: in.QEID, Signature: in.QESig},
		Certificates: in.Certs,
	}
	var (
		vq  *sgx.VerifiedQuote
		err error
	)
	t := time.Unix(ts, 0)
	switch entry {
	case "bundle":
		qb := pcs.QuoteBundle{Quote: in.Quote, TCB: tcb}
		vq, err = qb.Verify(pol, t)
	case "trailing":
		var q pcs.Quote
		if _, err = q.UnmarshalBinaryWithTrailing(in.Quote, true); err == nil {
			vq, err = q.Verify(pol, t, &tcb)
		}
	case "nilbundle":
		var q pcs.Quote
		if err = q.UnmarshalBinary(in.Quote); err == nil {
			vq, err = q.Verify(pol, t, nil)
		}
	default:
		panic("unknown entry " + entry)
	}
	if err != nil {
		return outcome{Err: err.Error()}
	}
	return outcome{Accepted: true, VQ: vq}
}

func firstLines(s string, n int) string {
	ls := strings.Split(s, "\n")
	if len(ls) > n {
		ls = ls[:n]
	}
	return strings.Join(ls, "\n")
}

// artefact is the self-contained replayable counterexample.
type artefact struct {
	Vector   string           `json:"vector"`
	Mutation string           `json:"mutation"`
	Entry    string           `json:"entry"`
	Trust    string           `json:"trust"`
	RootPEM  string           `json:"root_pem,omitempty"`
	TS       int64            `json:"ts"`
	Policy   *pcs.QuotePolicy `json:"policy"`
	PolName  string           `json:"policy_name"`
	In       input            `json:"input"`
	// Expectation.
	MustReject string        `json:"must_reject,omitempty"` // non-empty: any acceptance is a violation
	V0Identity string        `json:"v0_identity,omitempty"`
	V0Report   []byte        `json:"v0_report_data,omitempty"`
	Node       *nodeArtefact `json:"node,omitempty"`
}

type engine struct {
	r       *ev.Run
	u       *universe
	gen     *synthGen
	stop    atomic.Bool
	accMu   sync.Mutex
	accSeen map[string]bool
	smpMu   sync.Mutex
	smpCnt  map[string]int
	outSeen sync.Map
	// counters
	evals      atomic.Int64
	rejected   atomic.Int64
	acceptedID atomic.Int64
	overstrict atomic.Int64
	byFamily   sync.Map // family -> *famCount
	seenMu     [64]sync.Mutex
	seen       [64]map[[16]byte]struct{}
	distinct   atomic.Int64
}

type famCount struct{ mutants, evals, rejected, accepted atomic.Int64 }

func (e *engine) fam(name string) *famCount {
	if c, ok := e.byFamily.Load(name); ok {
		return c.(*famCount)
	}
	c, _ := e.byFamily.LoadOrStore(name, &famCount{})
	return c.(*famCount)
}

// noteDistinct records a mutant input; returns false if it equals the vector's
// unmodified input (trivial, not a mutant).
func (e *engine) noteDistinct(v *vector, in *input) bool {
	d := in.digest()
	if d == v.baseDig {
		return false
	}
	s := int(d[0]) % 64
	e.seenMu[s].Lock()
	if e.seen[s] == nil {
		e.seen[s] = map[[16]byte]struct{}{}
	}
	if _, ok := e.seen[s][d]; !ok {
		e.seen[s][d] = struct{}{}
		e.distinct.Add(1)
	}
	e.seenMu[s].Unlock()
	return true
}

var digits = regexp.MustCompile(`[0-9A-Fa-f]*[0-9][0-9A-Fa-f]*`)

func errClass(s string) string {
	if len(s) > 160 {
		s = s[:160]
	}
	return digits.ReplaceAllString(s, "#")
}

func sameVQ(a, b *sgx.VerifiedQuote) bool {
	return a != nil && b != nil && a.Identity == b.Identity && bytes.Equal(a.ReportData, b.ReportData)
}

// judge applies the oracle to one execution.  must is the reference model's
// reason why this (input, time, policy) has to be rejected ("" if none); v0 is
// the verified quote an acceptance has to reproduce (nil: acceptance is never
// allowed).
func (e *engine) judge(fam string, a *artefact, v0 *sgx.VerifiedQuote, out outcome) {
	e.evals.Add(1)
	fc := e.fam(fam)
	fc.evals.Add(1)
	key := fmt.Sprintf("%s/%s/%s@%d,%s", a.Vector, fam, a.Mutation, a.TS, a.PolName)
	switch {
	case out.Panic != "":
		e.violate(key+"/panic", "verification panicked: "+firstLines(out.Panic, 3), a, v0)
	case !out.Accepted:
		e.rejected.Add(1)
		fc.rejected.Add(1)
		e.outcome("reject: " + errClass(out.Err))
	default:
		switch {
		case a.MustReject != "":
			e.violate(key+"/accepted-must-reject", "accepted although it must be rejected: "+a.MustReject, a, v0)
		case v0 == nil:
			e.violate(key+"/accepted-no-baseline", "accepted a modification of a vector whose unmodified form is rejected", a, v0)
		case !sameVQ(out.VQ, v0):
			id := "<nil>"
			var rd []byte
			if out.VQ != nil {
				id, rd = out.VQ.Identity.String(), out.VQ.ReportData
			}
			e.violate(key+"/accepted-different", fmt.Sprintf("modified input accepted with a different verified identity/report data: identity %s report data %x (unmodified: %s %x)", id, rd, v0.Identity.String(), v0.ReportData), a, v0)
		default:
			e.acceptedID.Add(1)
			fc.accepted.Add(1)
			e.outcome("accept-identical")
			if a.Mutation != "unmodified" && a.Trust == "intel" {
				e.noteAccepted(a.Vector + " " + fam + ": " + a.Mutation)
			}
		}
	}
}

// sample records a sample case, at most max per kind.
func (e *engine) sample(kind string, max int, v any) {
	e.smpMu.Lock()
	if e.smpCnt == nil {
		e.smpCnt = map[string]int{}
	}
	ok := e.smpCnt[kind] < max
	if ok {
		e.smpCnt[kind]++
	}
	e.smpMu.Unlock()
	if ok {
		e.r.Sample(v, 400)
	}
}

// noteAccepted keeps the descriptions of mutants that were accepted with
// identical output (they show which input bytes no signature covers).
func (e *engine) noteAccepted(s string) {
	e.accMu.Lock()
	if e.accSeen == nil {
		e.accSeen = map[string]bool{}
	}
	if !e.accSeen[s] && len(e.accSeen) < 20000 {
		e.accSeen[s] = true
	}
	e.accMu.Unlock()
}

// outcome records a distinct outcome class without taking the run's global
// lock on every evaluation.
func (e *engine) outcome(s string) {
	if _, ok := e.outSeen.Load(s); ok {
		return
	}
	e.outSeen.Store(s, struct{}{})
	e.r.Outcome(s)
}

func (e *engine) violate(key, what string, a *artefact, v0 *sgx.VerifiedQuote) {
	c := *a
	if v0 != nil {
		c.V0Identity = v0.Identity.String()
		c.V0Report = v0.ReportData
	}
	if c.Trust == "synthetic" {
		c.RootPEM = string(synthRootPEM)
	}
	e.r.Violate(ev.Violation{Engine: "pcsmc", Key: key, What: fmt.Sprintf("[%s %s t=%d policy=%s] %s", a.Vector, a.Mutation, a.TS, a.PolName, what), Artefact: c})
}

func vqFromArtefact(a *artefact) *sgx.VerifiedQuote {
	if a.V0Identity == "" {
		return nil
	}
	var id sgx.EnclaveIdentity
	if err := id.UnmarshalHex(a.V0Identity); err != nil {
		return nil
	}
	return &sgx.VerifiedQuote{Identity: id, ReportData: a.V0Report}
}
