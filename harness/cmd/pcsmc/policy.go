package main

import (
	"fmt"
	"sort"
	"strings"

	"github.com/oasisprotocol/oasis-core/go/common/sgx/pcs"
)

// hexcaseKey marks the sub-check "a blacklist entry that names the platform's
// FMSPC in the other hex case must block it" (see report / known findings).
const hexcaseKey = "fmspc-blacklist-hexcase"

func swapCase(s string) string {
	if u := strings.ToUpper(s); u != s {
		return u
	}
	return strings.ToLower(s)
}

// boundaryTimes lists every validity-window boundary of the bundle at -1 s, 0, +1 s.
func (v *vector) boundaryTimes(validities []uint16) []int64 {
	set := map[int64]bool{v.T0: true}
	add := func(t int64) {
		for d := int64(-1); d <= 1; d++ {
			set[t+d] = true
		}
	}
	for _, w := range v.QF.PCK {
		add(w.NB)
		add(w.NA)
	}
	for _, w := range v.CW {
		add(w.NB)
		add(w.NA)
	}
	add(v.TF.Issue)
	add(v.TF.NextUpd)
	add(v.EF.Issue)
	add(v.EF.NextUpd)
	for _, d := range validities {
		add(v.TF.Issue + int64(d)*86400)
		add(v.EF.Issue + int64(d)*86400)
	}
	var out []int64
	for t := range set {
		out = append(out, t)
	}
	sort.Slice(out, func(i, j int) bool { return out[i] < out[j] })
	return out
}

type namedPolicy struct {
	Name string
	Pol  *pcs.QuotePolicy
	// HexCase: the blacklist names the platform's FMSPC only in the other hex case.
	HexCase bool
}

func uniqU32(xs ...uint32) []uint32 {
	m := map[uint32]bool{}
	var out []uint32
	for _, x := range xs {
		if !m[x] {
			m[x] = true
			out = append(out, x)
		}
	}
	sort.Slice(out, func(i, j int) bool { return out[i] < out[j] })
	return out
}

// policyProduct is the full product of the policy dimensions.
func (v *vector) policyProduct(validities []uint16, thorough bool) []namedPolicy {
	lo, hi := v.TF.Eval, v.EF.Eval
	if lo > hi {
		lo, hi = hi, lo
	}
	mins := uniqU32(0, pcs.DefaultMinTCBEvaluationDataNumber, lo-1, lo, lo+1, hi, hi+1, 1<<32-1)
	fm := v.TF.FMSPC
	other := "0123456789AB"
	type lst struct {
		n string
		l []string
		h bool
	}
	bls := []lst{{"none", nil, false}, {"exact", []string{fm}, false}, {"other", []string{other}, false}, {"other+exact", []string{other, fm}, false},
		{"othercase", []string{swapCase(fm)}, true}, {"prefix", []string{fm[:10]}, false}}
	wls := []lst{{"none", nil, false}, {"empty", []string{}, false}, {"exact", []string{fm}, false}, {"other", []string{other}, false}, {"other+exact", []string{other, fm}, false}}
	type tdxv struct {
		n string
		p *pcs.TdxQuotePolicy
	}
	tdxs := []tdxv{{"nil", nil}, {"any", &pcs.TdxQuotePolicy{}}}
	if v.QF.Tee == teeTDX {
		seam := v.QF.MrSeam
		wrongSeam := seam
		wrongSeam[47] ^= 1
		wrongSigner := v.QF.MrSignerSeam
		wrongSigner[0] ^= 1
		tdxs = append(tdxs,
			tdxv{"signer", &pcs.TdxQuotePolicy{AllowedTdxModules: []pcs.TdxModulePolicy{{MrSignerSeam: v.QF.MrSignerSeam}}}},
			tdxv{"signer+seam", &pcs.TdxQuotePolicy{AllowedTdxModules: []pcs.TdxModulePolicy{{MrSeam: &seam, MrSignerSeam: v.QF.MrSignerSeam}}}},
			tdxv{"wrongsigner", &pcs.TdxQuotePolicy{AllowedTdxModules: []pcs.TdxModulePolicy{{MrSignerSeam: wrongSigner}}}},
			tdxv{"wrongseam", &pcs.TdxQuotePolicy{AllowedTdxModules: []pcs.TdxModulePolicy{{MrSeam: &wrongSeam, MrSignerSeam: v.QF.MrSignerSeam}}}},
			tdxv{"wrong,match", &pcs.TdxQuotePolicy{AllowedTdxModules: []pcs.TdxModulePolicy{{MrSignerSeam: wrongSigner}, {MrSeam: &seam, MrSignerSeam: v.QF.MrSignerSeam}}}},
			tdxv{"seam+wrongsigner", &pcs.TdxQuotePolicy{AllowedTdxModules: []pcs.TdxModulePolicy{{MrSeam: &seam, MrSignerSeam: wrongSigner}}}},
			tdxv{"wrongseam+wrongsigner", &pcs.TdxQuotePolicy{AllowedTdxModules: []pcs.TdxModulePolicy{{MrSeam: &wrongSeam, MrSignerSeam: wrongSigner}}}},
		)
	}
	if !thorough {
		// Quick: the same dimensions with the redundant list shapes left out.
		bls = []lst{bls[0], bls[1], bls[2], bls[4]}
		wls = []lst{wls[0], wls[2], wls[3]}
		if len(tdxs) > 2 {
			tdxs = []tdxv{tdxs[0], tdxs[1], tdxs[3], tdxs[4], tdxs[5], tdxs[7]}
		}
	}
	out := []namedPolicy{{Name: "nil", Pol: nil}}
	for _, dis := range []bool{false, true} {
		for _, val := range validities {
			for _, mn := range mins {
				for _, bl := range bls {
					for _, wl := range wls {
						for _, tx := range tdxs {
							p := &pcs.QuotePolicy{Disabled: dis, TCBValidityPeriod: val, MinTCBEvaluationDataNumber: mn, FMSPCBlacklist: bl.l, FMSPCWhitelist: wl.l, TDX: tx.p}
							out = append(out, namedPolicy{
								Name:    fmt.Sprintf("dis=%v,val=%d,min=%d,bl=%s,wl=%s,tdx=%s", dis, val, mn, bl.n, wl.n, tx.n),
								Pol:     p,
								HexCase: bl.h,
							})
						}
					}
				}
			}
		}
	}
	return out
}

// mutantPoints are the (time, policy) points at which every mutant is run.
// The first one is the baseline point (valid time, permissive policy).
func (v *vector) mutantPoints() []tp {
	strict := &pcs.QuotePolicy{TCBValidityPeriod: 30, MinTCBEvaluationDataNumber: minU32(v.TF.Eval, v.EF.Eval), FMSPCWhitelist: []string{v.TF.FMSPC}, FMSPCBlacklist: []string{"0123456789AB"}}
	if v.QF.Tee == teeTDX {
		seam := v.QF.MrSeam
		strict.TDX = &pcs.TdxQuotePolicy{AllowedTdxModules: []pcs.TdxModulePolicy{{MrSeam: &seam, MrSignerSeam: v.QF.MrSignerSeam}}}
	}
	long := permissive()
	long.TCBValidityPeriod = 90
	forever := permissive()
	forever.TCBValidityPeriod = 65535
	pts := []tp{
		{v.T0, permissive(), "permissive"},
		{v.T0, strict, "strict"},
		{v.T0 + 40*86400, long, "permissive-90d"},     // past nextUpdate, inside a 90 day policy window
		{v.T0 + 40*86400, permissive(), "permissive"}, // collateral expired
		{v.T0, nil, "nil"},
		{v.TF.Issue - 1, forever, "permissive-65535d"}, // TCB info not yet issued
		{946684800, forever, "permissive-65535d"},      // 2000-01-01: before every certificate
		{2871763200, forever, "permissive-65535d"},     // 2061-01-01: after every certificate
	}
	return pts
}

func minU32(a, b uint32) uint32 {
	if a < b {
		return a
	}
	return b
}
