package main

// Synthetic bundles.  No Intel-signed test vector carries an OutOfDate /
// Revoked / ConfigurationNeeded TCB level, a foreign FMSPC that differs only in
// case or length, a QE report that is not bound to the attestation key, etc.
// To reach those, this layer points the exported trust-root pool
// (pcs.IntelTrustRoots) at a harness-owned P-256 root and produces complete,
// correctly signed bundles (PCK chain with SGX extensions, QE report, quote
// signature, TCB info, QE identity) in which exactly the stated aspect
// deviates.  The verification code itself is unchanged.  Keys are derived from
// fixed strings and signatures are RFC 6979 deterministic: same bytes every run.

import (
	"crypto"
	"crypto/ecdsa"
	"crypto/elliptic"
	"crypto/sha256"
	"crypto/x509"
	"crypto/x509/pkix"
	"encoding/asn1"
	"encoding/binary"
	"encoding/hex"
	"encoding/json"
	"encoding/pem"
	"fmt"
	"io"
	"math/big"
	"strings"
	"sync"
	"time"

	"github.com/oasisprotocol/oasis-core/go/common/sgx"
	"github.com/oasisprotocol/oasis-core/go/common/sgx/pcs"
)

const synthT = int64(1735689600) // 2025-01-01T00:00:00Z

type detKey struct{ k *ecdsa.PrivateKey }

func (d detKey) Public() crypto.PublicKey { return &d.k.PublicKey }
func (d detKey) Sign(_ io.Reader, digest []byte, opts crypto.SignerOpts) ([]byte, error) {
	return d.k.Sign(nil, digest, opts) // rand == nil: RFC 6979
}

func newKey(name string) *ecdsa.PrivateKey {
	d := sha256.Sum256([]byte("pcsmc synthetic key: " + name))
	k, err := ecdsa.ParseRawPrivateKey(elliptic.P256(), d[:])
	if err != nil {
		panic(err)
	}
	return k
}

func rawSig(k *ecdsa.PrivateKey, msg []byte) []byte {
	h := sha256.Sum256(msg)
	der, err := k.Sign(nil, h[:], crypto.SHA256)
	if err != nil {
		panic(err)
	}
	var rs struct{ R, S *big.Int }
	if _, err := asn1.Unmarshal(der, &rs); err != nil {
		panic(err)
	}
	out := make([]byte, 64)
	rs.R.FillBytes(out[:32])
	rs.S.FillBytes(out[32:])
	return out
}

func rawPub(k *ecdsa.PrivateKey) []byte {
	b, err := k.PublicKey.Bytes() // 0x04 || X || Y
	if err != nil {
		panic(err)
	}
	return b[1:]
}

func ts(t int64) time.Time { return time.Unix(t, 0).UTC() }

func mkCert(cn string, pub *ecdsa.PrivateKey, signer *ecdsa.PrivateKey, parent *x509.Certificate, ca bool, nb, na int64, exts []pkix.Extension) (*x509.Certificate, []byte) {
	sh := sha256.Sum256([]byte(fmt.Sprintf("%s|%d|%d|%x|%x|%v", cn, nb, na, rawPub(pub), rawPub(signer), len(exts))))
	tpl := &x509.Certificate{
		SerialNumber:          new(big.Int).SetBytes(sh[:8]),
		Subject:               pkix.Name{CommonName: cn, Organization: []string{"pcsmc harness"}},
		NotBefore:             ts(nb),
		NotAfter:              ts(na),
		BasicConstraintsValid: true,
		IsCA:                  ca,
		ExtraExtensions:       exts,
		SignatureAlgorithm:    x509.ECDSAWithSHA256,
	}
	if ca {
		tpl.KeyUsage = x509.KeyUsageCertSign | x509.KeyUsageCRLSign
	} else {
		tpl.KeyUsage = x509.KeyUsageDigitalSignature
	}
	if parent == nil {
		parent = tpl
	}
	der, err := x509.CreateCertificate(nil, tpl, parent, &pub.PublicKey, detKey{signer})
	if err != nil {
		panic(err)
	}
	c, err := x509.ParseCertificate(der)
	if err != nil {
		panic(err)
	}
	return c, der
}

type sgxExtV struct {
	ID  asn1.ObjectIdentifier
	Val any
}

// sgxExtension builds the PCK certificate's SGX extension.
func sgxExtension(fmspc []byte, comp [16]int, pcesvn int, withFMSPC bool) pkix.Extension {
	base := asn1.ObjectIdentifier{1, 2, 840, 113741, 1, 13, 1}
	sub := func(xs ...int) asn1.ObjectIdentifier { return append(append(asn1.ObjectIdentifier{}, base...), xs...) }
	type intExt struct {
		ID asn1.ObjectIdentifier
		V  int
	}
	type octExt struct {
		ID asn1.ObjectIdentifier
		V  []byte
	}
	var tcb []asn1.RawValue
	add := func(v any) {
		b, err := asn1.Marshal(v)
		if err != nil {
			panic(err)
		}
		tcb = append(tcb, asn1.RawValue{FullBytes: b})
	}
	cpusvn := make([]byte, 16)
	for i := 0; i < 16; i++ {
		add(intExt{sub(2, i+1), comp[i]})
		cpusvn[i] = byte(comp[i])
	}
	add(intExt{sub(2, 17), pcesvn})
	add(octExt{sub(2, 18), cpusvn})
	type seqExt struct {
		ID asn1.ObjectIdentifier
		V  []asn1.RawValue
	}
	var top []asn1.RawValue
	addTop := func(v any) {
		b, err := asn1.Marshal(v)
		if err != nil {
			panic(err)
		}
		top = append(top, asn1.RawValue{FullBytes: b})
	}
	addTop(octExt{sub(1), make([]byte, 16)}) // PPID
	addTop(seqExt{sub(2), tcb})
	addTop(octExt{sub(3), []byte{0, 0}}) // PCE-ID
	if withFMSPC {
		addTop(octExt{sub(4), fmspc})
	}
	val, err := asn1.Marshal(top)
	if err != nil {
		panic(err)
	}
	return pkix.Extension{Id: base, Value: val}
}

func pemOf(ders ...[]byte) []byte {
	var out []byte
	for _, d := range ders {
		out = append(out, pem.EncodeToMemory(&pem.Block{Type: "CERTIFICATE", Bytes: d})...)
	}
	return out
}

// pki is the harness PKI (and a rogue twin that is not trusted).
type pki struct {
	root, tcb, plat, pck, att, other *ecdsa.PrivateKey
	rootC, tcbC, platC               *x509.Certificate
	rootD, tcbD, platD               []byte
}

func newPKI(prefix string) *pki {
	p := &pki{root: newKey(prefix + "root"), tcb: newKey(prefix + "tcb"), plat: newKey(prefix + "plat"), pck: newKey(prefix + "pck"), att: newKey(prefix + "att"), other: newKey(prefix + "other")}
	nb, na := int64(1526899510), int64(2524607999) // 2018-05-21 .. 2049-12-31
	// The rogue twin uses the same subject names: chain building must rely on
	// signatures, not on names.
	p.rootC, p.rootD = mkCert("SGX Root CA", p.root, p.root, nil, true, nb, na, nil)
	p.tcbC, p.tcbD = mkCert("SGX TCB Signing", p.tcb, p.root, p.rootC, false, nb, synthT+5*365*86400, nil)
	p.platC, p.platD = mkCert("SGX PCK Platform CA", p.plat, p.root, p.rootC, true, nb, synthT+5*365*86400, nil)
	return p
}

var synthFMSPC = []byte{0x00, 0xA0, 0x6F, 0xB0, 0x00, 0x00}

func (p *pki) pckLeaf(signer *ecdsa.PrivateKey, parent *x509.Certificate, nb, na int64, withFMSPC bool, m *matchSpec) []byte {
	comp, pcesvn := m.platform()
	_, der := mkCert("SGX PCK Certificate", p.pck, signer, parent, false, nb, na, []pkix.Extension{sgxExtension(synthFMSPC, comp, pcesvn, withFMSPC)})
	return der
}

// matchSpec varies what Intel's TCB level selection compares: the platform's
// 16 SGX component SVNs and PCESVN (PCK certificate), the TEE TCB SVNs of a TD
// report, against the three levels (all components 5 / 3 / 0, PCESVN 11 / 9 / 6)
// whose statuses are given.  nil: the default platform (components 4, PCESVN 11).
type matchSpec struct {
	Comp     int       `json:"comp"`      // value of every SGX component SVN
	Low      int       `json:"low"`       // index of one component lowered to 2, or -1
	PCESVN   int       `json:"pcesvn"`    // PCESVN in the PCK certificate
	Tdx      int       `json:"tdx"`       // value of TEE TCB SVN 2..15 (and 0 when Minor is 0)
	TdxLow   int       `json:"tdx_low"`   // index of one TEE TCB SVN lowered to 2, or -1
	Minor    int       `json:"tdx_minor"` // TEE TCB SVN index 1 (TDX module major version)
	Statuses [3]string `json:"statuses"`
}

var matchLevels = [3]int{5, 3, 0}

func (m *matchSpec) key() string {
	if m == nil {
		return ""
	}
	return fmt.Sprintf("%d/%d/%d", m.Comp, m.Low, m.PCESVN)
}

func (m *matchSpec) platform() (comp [16]int, pcesvn int) {
	for i := range comp {
		comp[i] = 4
	}
	if m == nil {
		return comp, 11
	}
	for i := range comp {
		comp[i] = m.Comp
	}
	if m.Low >= 0 {
		comp[m.Low] = 2
	}
	return comp, m.PCESVN
}

// teeTcbSvn is the TD report's TEE TCB SVN array.
func (m *matchSpec) teeTcbSvn() (t [16]byte) {
	t[0], t[1] = 3, 1
	for i := 2; i < 16; i++ {
		t[i] = 4
	}
	if m == nil {
		return
	}
	for i := 2; i < 16; i++ {
		t[i] = byte(m.Tdx)
	}
	t[1] = byte(m.Minor)
	if m.Minor == 0 {
		t[0] = byte(m.Tdx)
	}
	if m.TdxLow >= 0 && m.TdxLow != 1 {
		t[m.TdxLow] = 2
	}
	return
}

// level is the selection written from Intel's description: the first level all
// of whose SGX components and PCESVN (and, for TDX, TEE TCB SVNs from index 0,
// or from 2 when the SVN at index 1 is non-zero) the platform reaches.
func (m *matchSpec) level(tdx bool) int {
	comp, pcesvn := m.platform()
	t := m.teeTcbSvn()
	for k, v := range matchLevels {
		ok := pcesvn >= v+6
		for _, c := range comp {
			ok = ok && c >= v
		}
		if tdx {
			off := 0
			if t[1] != 0 {
				off = 2
			}
			for _, c := range t[off:] {
				ok = ok && int(c) >= v
			}
		}
		if ok {
			return k
		}
	}
	return -1
}

// synthSpec states what the bundle looks like; every field is data the
// reference verdict is computed from (no parsing of the generated bytes).
type synthSpec struct {
	Tee        string     `json:"tee"`         // sgx3 | sgx4 | tdx4
	PlatStatus string     `json:"plat_status"` // status of the level the platform matches; "none": no level matches
	QEStatus   string     `json:"qe_status"`
	ModStatus  string     `json:"mod_status,omitempty"`  // TDX module status; "missing": module identity not listed
	FMSPC      string     `json:"fmspc"`                 // equal | lower | differs | prefix | long | nothex
	Dev        string     `json:"dev,omitempty"`         // single deviation
	RD         string     `json:"report_data,omitempty"` // hex report data (default: fixed)
	Lax        bool       `json:"lax_policy,omitempty"`  // policy with minimum evaluation number 0 and 65535 days validity
	Match      *matchSpec `json:"match,omitempty"`       // TCB level matching product (PlatStatus is ignored)
}

func (s synthSpec) String() string {
	if s.Match != nil {
		return fmt.Sprintf("%s match=%+v qe=%s mod=%s fmspc=%s", s.Tee, *s.Match, s.QEStatus, s.ModStatus, s.FMSPC)
	}
	return fmt.Sprintf("%s plat=%s qe=%s mod=%s fmspc=%s dev=%s lax=%v", s.Tee, s.PlatStatus, s.QEStatus, s.ModStatus, s.FMSPC, s.Dev, s.Lax)
}

// deviation: name -> must it be rejected?
var synthDevs = []struct {
	Name   string
	Reject bool
}{
	{"", false},
	{"auth-empty", false},
	{"auth-64", false},
	{"json-extra-fields", false},
	{"pck-matches-first-level", false},
	// quote
	{"quote-signed-by-other-key", true},
	{"attkey-not-bound-in-qe-report", true},
	{"qe-report-data-upper-nonzero", true},
	{"qe-report-data-binds-key-without-authdata", true},
	{"qe-report-signed-by-other-key", true},
	{"qe-report-signed-by-attkey", true},
	{"body-changed-after-signing", true},
	{"header-changed-after-signing", true},
	{"debug-enclave", true},
	{"blacklisted-mrsigner", true},
	{"tdx-foreign-seam-signer", true},
	// PCK chain
	{"pck-chain-rogue-root", true},
	{"pck-chain-rogue-ca-real-root", true},
	{"pck-chain-root-entry-rogue", true},
	{"pck-leaf-expired", true},
	{"pck-leaf-not-yet-valid", true},
	{"pck-ca-expired", true},
	{"pck-no-fmspc", true},
	{"pck-chain-two-certs", true},
	// TCB signing chain
	{"tcb-chain-rogue", true},
	{"tcb-chain-rogue-cert-real-root", true},
	{"tcb-chain-root-entry-rogue", true},
	{"tcb-cert-expired", true},
	{"tcb-cert-not-yet-valid", true},
	{"tcb-chain-single", true},
	// TCB info
	{"tcbinfo-other-tee", true},
	{"tcbinfo-version-2", true},
	{"tcbinfo-version-4", true},
	{"tcbinfo-issued-in-future", true},
	{"tcbinfo-expired", true},
	{"tcbinfo-eval-below-min", true},
	{"tcbinfo-signed-by-rogue", true},
	{"tcbinfo-signed-by-pck-key", true},
	{"tcbinfo-signature-of-qeid", true},
	{"tcbinfo-status-missing", true},
	{"tcbinfo-status-unknown", true},
	// QE identity
	{"qeid-other-tee", true},
	{"qeid-version-1", true},
	{"qeid-version-3", true},
	{"qeid-issued-in-future", true},
	{"qeid-expired", true},
	{"qeid-eval-below-min", true},
	{"qeid-signed-by-rogue", true},
	{"qeid-mrsigner-differs", true},
	{"qeid-prodid-differs", true},
	{"qeid-miscselect-differs", true},
	{"qeid-attributes-differ", true},
	{"qeid-no-level-matches", true},
	// policy
	{"policy-blacklisted", true},
	{"policy-not-whitelisted", true},
	{"policy-disabled", true},
}

type synthGen struct {
	real, rogue *pki
	mu          sync.Mutex
	cache       map[string][]byte
}

func (g *synthGen) memo(key string, f func() []byte) []byte {
	g.mu.Lock()
	defer g.mu.Unlock()
	if b, ok := g.cache[key]; ok {
		return b
	}
	b := f()
	g.cache[key] = b
	return b
}

type synthCase struct {
	In  input
	Pol *pcs.QuotePolicy
}

func fmspcText(rel string) string {
	up := strings.ToUpper(hex.EncodeToString(synthFMSPC))
	switch rel {
	case "equal":
		return up
	case "lower":
		return strings.ToLower(up)
	case "differs":
		return up[:11] + "1"
	case "prefix":
		return up[:10]
	case "long":
		return up + "00"
	case "nothex":
		return up[:11] + "G"
	}
	panic(rel)
}

func comps(v int) []map[string]any {
	out := make([]map[string]any, 16)
	for i := range out {
		out[i] = map[string]any{"svn": v}
	}
	return out
}

func (g *synthGen) build(s synthSpec) synthCase {
	p := g.real
	tdx := s.Tee == "tdx4"
	dev := s.Dev
	day := int64(86400)
	pol := &pcs.QuotePolicy{TCBValidityPeriod: 30, MinTCBEvaluationDataNumber: 17, TDX: &pcs.TdxQuotePolicy{}}
	if s.Lax {
		pol = &pcs.QuotePolicy{TCBValidityPeriod: 65535, MinTCBEvaluationDataNumber: 0, TDX: &pcs.TdxQuotePolicy{}, FMSPCWhitelist: []string{}, FMSPCBlacklist: []string{}}
	}

	// ---- TCB info ----
	level := func(v int, status string) map[string]any {
		tcb := map[string]any{"sgxtcbcomponents": comps(v), "pcesvn": v + 6}
		if tdx {
			tcb["tdxtcbcomponents"] = comps(v)
		}
		m := map[string]any{"tcb": tcb, "tcbDate": "2024-03-13T00:00:00Z"}
		if status != "" {
			m["tcbStatus"] = status
		}
		return m
	}
	var levels []any
	switch {
	case s.Match != nil:
		levels = []any{level(5, s.Match.Statuses[0]), level(3, s.Match.Statuses[1]), level(0, s.Match.Statuses[2])}
	case dev == "pck-matches-first-level":
		levels = []any{level(4, "UpToDate"), level(3, "OutOfDate"), level(0, "Revoked")}
	case s.PlatStatus == "none":
		levels = []any{level(6, "UpToDate"), level(5, "UpToDate")}
	case dev == "tcbinfo-status-missing":
		levels = []any{level(5, "UpToDate"), level(3, ""), level(0, "UpToDate")}
	case dev == "tcbinfo-status-unknown":
		levels = []any{level(5, "UpToDate"), level(3, "uptodate"), level(0, "UpToDate")}
	default:
		levels = []any{level(5, "UpToDate"), level(3, s.PlatStatus), level(0, "UpToDate")}
	}
	id := "SGX"
	if tdx {
		id = "TDX"
	}
	if dev == "tcbinfo-other-tee" {
		id = map[string]string{"SGX": "TDX", "TDX": "SGX"}[id]
	}
	ver := 3
	if dev == "tcbinfo-version-2" {
		ver = 2
	} else if dev == "tcbinfo-version-4" {
		ver = 4
	}
	issue := synthT - day
	if dev == "tcbinfo-issued-in-future" {
		issue = synthT + 1
	} else if dev == "tcbinfo-expired" {
		issue = synthT - 30*day - 1
	}
	eval := 17
	if dev == "tcbinfo-eval-below-min" {
		eval = 16
	}
	ti := map[string]any{"id": id, "version": ver, "issueDate": ts(issue).Format(time.RFC3339), "nextUpdate": ts(issue + 30*day).Format(time.RFC3339),
		"fmspc": fmspcText(s.FMSPC), "pceId": "0000", "tcbType": 0, "tcbEvaluationDataNumber": eval, "tcbLevels": levels}
	if tdx {
		zero48 := strings.Repeat("00", 48)
		ti["tdxModule"] = map[string]any{"mrsigner": zero48, "attributes": "0000000000000000", "attributesMask": "FFFFFFFFFFFFFFFF"}
		ml := func(isv int, st string) map[string]any {
			return map[string]any{"tcb": map[string]any{"isvsvn": isv}, "tcbDate": "2024-03-13T00:00:00Z", "tcbStatus": st}
		}
		mods := []any{map[string]any{"id": "TDX_03", "mrsigner": zero48, "attributes": "0000000000000000", "attributesMask": "FFFFFFFFFFFFFFFF", "tcbLevels": []any{ml(0, "UpToDate")}}}
		if s.ModStatus != "missing" {
			mods = append(mods, map[string]any{"id": "TDX_01", "mrsigner": zero48, "attributes": "0000000000000000", "attributesMask": "FFFFFFFFFFFFFFFF",
				"tcbLevels": []any{ml(5, "UpToDate"), ml(2, s.ModStatus), ml(0, "UpToDate")}})
		}
		ti["tdxModuleIdentities"] = mods
	}
	if dev == "json-extra-fields" {
		ti["somethingNew"] = map[string]any{"a": []int{1, 2, 3}}
	}
	tiBody, _ := json.Marshal(ti)

	// ---- QE identity ----
	qeMrSigner := sha256.Sum256([]byte("pcsmc QE signer"))
	qid := "QE"
	if tdx {
		qid = "TD_QE"
	}
	if dev == "qeid-other-tee" {
		qid = map[string]string{"QE": "TD_QE", "TD_QE": "QE"}[qid]
	}
	qver := 2
	if dev == "qeid-version-1" {
		qver = 1
	} else if dev == "qeid-version-3" {
		qver = 3
	}
	qissue := synthT - 2*day
	if dev == "qeid-issued-in-future" {
		qissue = synthT + 1
	} else if dev == "qeid-expired" {
		qissue = synthT - 30*day - 1
	}
	qeval := 17
	if dev == "qeid-eval-below-min" {
		qeval = 16
	}
	qms := strings.ToUpper(hex.EncodeToString(qeMrSigner[:]))
	if dev == "qeid-mrsigner-differs" {
		qms = qms[:63] + map[bool]string{true: "0", false: "1"}[qms[63] != '0']
	}
	prod := 2
	if dev == "qeid-prodid-differs" {
		prod = 3
	}
	misc, attr := "00000000", "11000000000000000000000000000000"
	if dev == "qeid-miscselect-differs" {
		misc = "01000000"
	}
	if dev == "qeid-attributes-differ" {
		attr = "13000000000000000000000000000000" // would require the debug flag
	}
	ql := func(isv int, st string) map[string]any {
		return map[string]any{"tcb": map[string]any{"isvsvn": isv}, "tcbDate": "2024-03-13T00:00:00Z", "tcbStatus": st}
	}
	qlevels := []any{ql(8, "UpToDate"), ql(5, s.QEStatus), ql(0, "UpToDate")}
	if dev == "qeid-no-level-matches" {
		qlevels = []any{ql(8, "UpToDate"), ql(7, "UpToDate")}
	}
	qi := map[string]any{"id": qid, "version": qver, "issueDate": ts(qissue).Format(time.RFC3339), "nextUpdate": ts(qissue + 30*day).Format(time.RFC3339),
		"tcbEvaluationDataNumber": qeval, "miscselect": misc, "miscselectMask": "FFFFFFFF", "attributes": attr, "attributesMask": "FBFFFFFFFFFFFFFF0000000000000000",
		"mrsigner": qms, "isvprodid": prod, "tcbLevels": qlevels}
	if dev == "json-extra-fields" {
		qi["advisoryIDs"] = []int{1}
		qi["unknown"] = "x"
	}
	qiBody, _ := json.Marshal(qi)

	signWith := func(k *ecdsa.PrivateKey, body []byte) string {
		return string(g.memo("sig:"+hex.EncodeToString(rawPub(k)[:8])+":"+string(body), func() []byte { return []byte(hex.EncodeToString(rawSig(k, body))) }))
	}
	tiKey, qiKey := p.tcb, p.tcb
	switch dev {
	case "tcbinfo-signed-by-rogue":
		tiKey = g.rogue.tcb
	case "tcbinfo-signed-by-pck-key":
		tiKey = p.pck
	case "qeid-signed-by-rogue":
		qiKey = g.rogue.tcb
	}
	tiSig, qiSig := signWith(tiKey, tiBody), signWith(qiKey, qiBody)
	if dev == "tcbinfo-signature-of-qeid" {
		tiSig = qiSig
	}

	// ---- TCB signing chain ----
	nb0 := int64(1526899510)
	certs := pemOf(p.tcbD, p.rootD)
	switch dev {
	case "tcb-chain-rogue":
		certs = pemOf(g.rogue.tcbD, g.rogue.rootD)
		tiSig, qiSig = signWith(g.rogue.tcb, tiBody), signWith(g.rogue.tcb, qiBody)
	case "tcb-chain-rogue-cert-real-root":
		certs = pemOf(g.rogue.tcbD, p.rootD)
		tiSig, qiSig = signWith(g.rogue.tcb, tiBody), signWith(g.rogue.tcb, qiBody)
	case "tcb-chain-root-entry-rogue":
		certs = pemOf(p.tcbD, g.rogue.rootD)
	case "tcb-cert-expired":
		certs = pemOf(g.memo("tcb-expired", func() []byte {
			_, d := mkCert("SGX TCB Signing", p.tcb, p.root, p.rootC, false, nb0, synthT-1, nil)
			return d
		}), p.rootD)
	case "tcb-cert-not-yet-valid":
		certs = pemOf(g.memo("tcb-future", func() []byte {
			_, d := mkCert("SGX TCB Signing", p.tcb, p.root, p.rootC, false, synthT+1, synthT+365*day, nil)
			return d
		}), p.rootD)
	case "tcb-chain-single":
		certs = pemOf(p.tcbD)
	}

	// ---- PCK chain ----
	leaf := func(key string, signer *ecdsa.PrivateKey, parent *x509.Certificate, nb, na int64, fm bool) []byte {
		return g.memo("leaf:"+key+":"+s.Match.key(), func() []byte { return p.pckLeaf(signer, parent, nb, na, fm, s.Match) })
	}
	good := leaf("good", p.plat, p.platC, synthT-30*day, synthT+7*365*day, true)
	chain := pemOf(good, p.platD, p.rootD)
	switch dev {
	case "pck-chain-rogue-root":
		chain = pemOf(leaf("rogue", g.rogue.plat, g.rogue.platC, synthT-30*day, synthT+7*365*day, true), g.rogue.platD, g.rogue.rootD)
	case "pck-chain-rogue-ca-real-root":
		chain = pemOf(leaf("rogue", g.rogue.plat, g.rogue.platC, synthT-30*day, synthT+7*365*day, true), g.rogue.platD, p.rootD)
	case "pck-chain-root-entry-rogue":
		chain = pemOf(good, p.platD, g.rogue.rootD)
	case "pck-leaf-expired":
		chain = pemOf(leaf("expired", p.plat, p.platC, synthT-30*day, synthT-1, true), p.platD, p.rootD)
	case "pck-leaf-not-yet-valid":
		chain = pemOf(leaf("future", p.plat, p.platC, synthT+1, synthT+365*day, true), p.platD, p.rootD)
	case "pck-ca-expired":
		ca := g.memo("plat-expired", func() []byte {
			_, d := mkCert("SGX PCK Platform CA", p.plat, p.root, p.rootC, true, nb0, synthT-1, nil)
			return d
		})
		chain = pemOf(good, ca, p.rootD)
	case "pck-no-fmspc":
		chain = pemOf(leaf("nofmspc", p.plat, p.platC, synthT-30*day, synthT+7*365*day, false), p.platD, p.rootD)
	case "pck-chain-two-certs":
		chain = pemOf(good, p.platD)
	}

	// ---- QE report ----
	auth := []byte("pcsmc authentication data 32 by.")
	switch dev {
	case "auth-empty":
		auth = nil
	case "auth-64":
		auth = append(auth, auth...)
	}
	attPub := rawPub(p.att)
	qe := make([]byte, sgxBody)
	for i := 0; i < 16; i++ {
		qe[i] = 4
	}
	binary.LittleEndian.PutUint64(qe[48:], 0x11) // INIT | PROVISION_KEY
	binary.LittleEndian.PutUint64(qe[56:], 0xe7)
	mre := sha256.Sum256([]byte("pcsmc QE enclave"))
	copy(qe[64:], mre[:])
	copy(qe[128:], qeMrSigner[:])
	binary.LittleEndian.PutUint16(qe[256:], 2)
	binary.LittleEndian.PutUint16(qe[258:], 6)
	bind := sha256.New()
	switch dev {
	case "attkey-not-bound-in-qe-report":
		bind.Write(rawPub(p.other))
		bind.Write(auth)
	case "qe-report-data-binds-key-without-authdata":
		bind.Write(attPub)
	default:
		bind.Write(attPub)
		bind.Write(auth)
	}
	copy(qe[320:], bind.Sum(nil))
	if dev == "qe-report-data-upper-nonzero" {
		qe[320+63] = 1
	}
	qeSigner := p.pck
	switch dev {
	case "qe-report-signed-by-other-key":
		qeSigner = p.other
	case "qe-report-signed-by-attkey":
		qeSigner = p.att
	}
	qeSig := g.memo("qesig:"+dev+":"+hex.EncodeToString(qe[320:352]), func() []byte { return rawSig(qeSigner, qe) })

	// ---- header + body ----
	hdr := make([]byte, hdrLen)
	binary.LittleEndian.PutUint16(hdr[2:], 2)
	copy(hdr[12:], pcs.QEVendorID_Intel)
	copy(hdr[28:], "pcsmc user data 20b.")
	switch s.Tee {
	case "sgx3":
		binary.LittleEndian.PutUint16(hdr[0:], 3)
		binary.LittleEndian.PutUint16(hdr[8:], 6)
		binary.LittleEndian.PutUint16(hdr[10:], 11)
	case "sgx4":
		binary.LittleEndian.PutUint16(hdr[0:], 4)
	case "tdx4":
		binary.LittleEndian.PutUint16(hdr[0:], 4)
		binary.LittleEndian.PutUint32(hdr[4:], teeTDX)
	}
	var body []byte
	if tdx {
		body = make([]byte, tdBody)
		tsvn := s.Match.teeTcbSvn()
		copy(body[0:16], tsvn[:])
		seam := sha256.Sum256([]byte("pcsmc seam"))
		copy(body[16:], seam[:])
		if dev == "tdx-foreign-seam-signer" {
			body[64] = 1
		}
		binary.LittleEndian.PutUint64(body[120:], 0x10000000) // SEPT_VE_DISABLE
		if dev == "debug-enclave" {
			body[120] |= 1
		}
		for k, off := range []int{136, 328, 376, 424, 472} {
			h := sha256.Sum256([]byte(fmt.Sprintf("pcsmc measurement %d", k)))
			copy(body[off:], h[:])
		}
		rd := sha256.Sum256([]byte("pcsmc report data"))
		copy(body[520:], rd[:])
		if s.RD != "" {
			b, _ := hex.DecodeString(s.RD)
			copy(body[520:], b)
		}
	} else {
		body = make([]byte, sgxBody)
		for i := 0; i < 16; i++ {
			body[i] = 4
		}
		binary.LittleEndian.PutUint64(body[48:], 0x05) // INIT | MODE64BIT
		if dev == "debug-enclave" {
			body[48] |= 2
		}
		binary.LittleEndian.PutUint64(body[56:], 3)
		me := sha256.Sum256([]byte("pcsmc enclave"))
		ms := sha256.Sum256([]byte("pcsmc enclave signer"))
		copy(body[64:], me[:])
		copy(body[128:], ms[:])
		if dev == "blacklisted-mrsigner" {
			var f sgx.MrSigner
			_ = f.UnmarshalHex(sgx.FortanixDummyMrSigner.String())
			copy(body[128:], f[:])
		}
		rd := sha256.Sum256([]byte("pcsmc report data"))
		copy(body[320:], rd[:])
		if s.RD != "" {
			b, _ := hex.DecodeString(s.RD)
			copy(body[320:], b)
		}
	}
	qSigner := p.att
	if dev == "quote-signed-by-other-key" {
		qSigner = p.other
	}
	signed := append(append([]byte{}, hdr...), body...)
	bh := sha256.Sum256(signed)
	qSig := g.memo("qsig:"+s.Tee+":"+dev+":"+s.RD+":"+hex.EncodeToString(bh[:8]), func() []byte { return rawSig(qSigner, signed) })
	switch dev {
	case "body-changed-after-signing":
		body = append([]byte{}, body...)
		body[len(body)-1] ^= 1 // report data
	case "header-changed-after-signing":
		hdr = append([]byte{}, hdr...)
		hdr[47] ^= 1
	}
	sec := &sections{Header: hdr, Body: body, QSig: qSig, AttKey: attPub, QEReport: qe, QESig: qeSig, Auth: auth, CType: 5, Cert: chain, RawOuterTyp: 6, Version: 3}
	if s.Tee != "sgx3" {
		sec.Version = 4
	}
	switch dev {
	case "policy-blacklisted":
		pol.FMSPCBlacklist = []string{"0123456789AB", fmspcText(s.FMSPC)}
	case "policy-not-whitelisted":
		pol.FMSPCWhitelist = []string{"0123456789AB"}
	case "policy-disabled":
		pol.Disabled = true
	}
	return synthCase{In: input{Quote: sec.build(15), TCBInfo: tiBody, TCBSig: tiSig, QEID: qiBody, QESig: qiSig, Certs: certs}, Pol: pol}
}

// synthMust is the verdict by construction.
func synthMust(s synthSpec) string {
	var why []string
	if m := s.Match; m != nil {
		k := m.level(s.Tee == "tdx4")
		if k < 0 {
			why = append(why, "no TCB level matches the platform")
		} else if st := m.Statuses[k]; st != "UpToDate" && st != "SWHardeningNeeded" {
			why = append(why, fmt.Sprintf("platform matches level %d with TCB status %s", k, st))
		}
		if s.Tee == "tdx4" {
			t := m.teeTcbSvn()
			switch {
			case t[1] == 0: // no module identity check
			case t[1] == 3: // TDX_03: one level (0, UpToDate)
			case t[1] == 1: // TDX_01: levels 5 UpToDate, 2 ModStatus, 0 UpToDate
				if t[0] < 5 && t[0] >= 2 && s.ModStatus != "UpToDate" {
					why = append(why, "TDX module TCB status "+s.ModStatus)
				}
			default:
				why = append(why, "TDX module identity not listed")
			}
		}
	} else {
		if s.PlatStatus != "UpToDate" && s.PlatStatus != "SWHardeningNeeded" && s.Dev != "pck-matches-first-level" {
			why = append(why, "platform TCB status "+s.PlatStatus)
		}
		if s.Tee == "tdx4" && s.ModStatus != "UpToDate" {
			why = append(why, "TDX module TCB status "+s.ModStatus)
		}
	}
	if s.QEStatus != "UpToDate" {
		why = append(why, "QE TCB status "+s.QEStatus)
	}
	if s.FMSPC != "equal" && s.FMSPC != "lower" {
		why = append(why, "TCB info FMSPC ("+s.FMSPC+") is not the platform's")
	}
	for _, d := range synthDevs {
		if d.Name == s.Dev && d.Reject {
			if (s.Dev == "blacklisted-mrsigner" && s.Tee == "tdx4") || (s.Dev == "tdx-foreign-seam-signer" && s.Tee != "tdx4") {
				continue // not applicable to this TEE type: bundle is unchanged
			}
			why = append(why, "deviation "+s.Dev)
		}
	}
	return strings.Join(why, "; ")
}

var synthRootPEM []byte

func installRoot(rootPEM []byte) error {
	pool := x509.NewCertPool()
	if !pool.AppendCertsFromPEM(rootPEM) {
		return fmt.Errorf("bad synthetic root")
	}
	pcs.IntelTrustRoots = pool
	return nil
}

func (e *engine) synthLayer(thorough bool) {
	r := e.r
	g := &synthGen{real: newPKI(""), rogue: newPKI("rogue "), cache: map[string][]byte{}}
	e.gen = g
	synthRootPEM = pemOf(g.real.rootD)
	if err := installRoot(synthRootPEM); err != nil {
		r.HarnessError("%v", err)
		return
	}
	pcs.BuildMrSignerBlacklist(false) // production setting: test signing keys are blacklisted
	r.Assume("synthetic layer: pcs.IntelTrustRoots (an exported variable) is pointed at a harness-owned P-256 root for this layer only; the verification code is unchanged")

	tees := []string{"sgx3", "sgx4", "tdx4"}
	plat := append(append([]string{}, statuses...), "none")
	mods := append(append([]string{}, statuses...), "missing")
	fms := []string{"equal", "lower", "differs", "prefix", "long", "nothex"}
	var specs []synthSpec
	for _, t := range tees {
		ms := []string{""}
		if t == "tdx4" {
			ms = mods
		}
		for _, ps := range plat {
			for _, qs := range statuses {
				for _, m := range ms {
					for _, f := range fms {
						specs = append(specs, synthSpec{Tee: t, PlatStatus: ps, QEStatus: qs, ModStatus: m, FMSPC: f})
						specs = append(specs, synthSpec{Tee: t, PlatStatus: ps, QEStatus: qs, ModStatus: m, FMSPC: f, Lax: true})
					}
				}
			}
		}
		// Single deviations on otherwise valid bundles (both acceptable platform
		// statuses, both acceptable FMSPC spellings).
		for _, d := range synthDevs {
			if d.Name == "" {
				continue
			}
			for _, ps := range []string{"UpToDate", "SWHardeningNeeded"} {
				for _, f := range []string{"equal", "lower"} {
					m := ""
					if t == "tdx4" {
						m = "UpToDate"
					}
					specs = append(specs, synthSpec{Tee: t, PlatStatus: ps, QEStatus: "UpToDate", ModStatus: m, FMSPC: f, Dev: d.Name})
				}
			}
		}
	}
	// TCB level matching product: platform component SVNs, PCESVN and TEE TCB
	// SVNs around the thresholds of three levels x all acceptable / unacceptable
	// status triples, so that the level the implementation selects is observable.
	nMatch := 0
	for _, t := range tees {
		var sts [][3]string
		for a := 0; a < 8; a++ {
			pick := func(bit int) string {
				if a&bit != 0 {
					return "OutOfDate"
				}
				return "UpToDate"
			}
			sts = append(sts, [3]string{pick(1), pick(2), pick(4)})
		}
		comps, lows, pces := []int{3, 4, 5, 6}, []int{-1, 0, 7, 15}, []int{5, 6, 8, 9, 10, 11, 12}
		type td struct{ tdx, low, minor int }
		tds := []td{{4, -1, 1}}
		if t == "tdx4" {
			comps, lows, pces = []int{4, 6}, []int{-1, 7}, []int{8, 9, 11}
			tds = nil
			for _, minor := range []int{0, 1, 2, 3} {
				for _, v := range []int{3, 5} {
					for _, low := range []int{-1, 0, 2, 15} {
						tds = append(tds, td{v, low, minor})
					}
				}
			}
		}
		for _, c := range comps {
			for _, l := range lows {
				for _, pv := range pces {
					for _, x := range tds {
						for _, st := range sts {
							m := ""
							if t == "tdx4" {
								m = "OutOfDate"
								if (c+pv+x.tdx+x.low)%2 == 0 {
									m = "UpToDate"
								}
							}
							specs = append(specs, synthSpec{Tee: t, QEStatus: "UpToDate", ModStatus: m, FMSPC: "equal",
								Match: &matchSpec{Comp: c, Low: l, PCESVN: pv, Tdx: x.tdx, TdxLow: x.low, Minor: x.minor, Statuses: st}})
							nMatch++
						}
					}
				}
			}
		}
	}
	r.Set("synthetic_tcb_matching_bundles", int64(nMatch))
	// Baselines: one per TEE type; also fixes the expected verified quote.
	v0 := map[string]*sgx.VerifiedQuote{}
	vecs := map[string]*vector{}
	for _, t := range tees {
		m := ""
		if t == "tdx4" {
			m = "UpToDate"
		}
		s := synthSpec{Tee: t, PlatStatus: "UpToDate", QEStatus: "UpToDate", ModStatus: m, FMSPC: "equal"}
		c := g.build(s)
		out := execute("bundle", &c.In, synthT, c.Pol)
		e.evals.Add(1)
		if !out.Accepted {
			r.HarnessError("synthetic baseline %s not accepted: %s%s", t, out.Err, out.Panic)
			return
		}
		l, err := parseLayout(c.In.Quote)
		if err != nil {
			r.HarnessError("synthetic baseline %s: %v", t, err)
			return
		}
		// Independent expectation for the SGX identity / report data.
		body := c.In.Quote[l.BodyOff : l.BodyOff+l.BodyLen]
		rdOff := 320
		if t == "tdx4" {
			rdOff = 520
		}
		if string(out.VQ.ReportData) != string(body[rdOff:rdOff+64]) || (t != "tdx4" && (string(out.VQ.Identity.MrEnclave[:]) != string(body[64:96]) || string(out.VQ.Identity.MrSigner[:]) != string(body[128:160]))) {
			e.violate("synthetic/"+t+"/baseline/accepted-different", "verified identity / report data are not the signed report body's", &artefact{Vector: "synthetic-" + t, Mutation: s.String(), Entry: "bundle", Trust: "synthetic", TS: synthT, Policy: c.Pol, PolName: "synthetic", In: c.In}, nil)
		}
		v0[t] = out.VQ
		vecs[t] = &vector{Name: "synthetic-" + t, Entry: "bundle", Trust: "synthetic", V0: out.VQ, Base: c.In, baseDig: c.In.digest()}
		e.sample("synthetic-baseline", 3, map[string]any{"vector": "synthetic-" + t, "spec": s, "result": resString(out)})
	}
	if !e.phaseOn("synthetic") {
		return
	}
	var accepted, mustAccepted int64
	var amu sync.Mutex
	parRange(len(specs), r.Seed, func(i int) {
		s := specs[i]
		c := g.build(s)
		must := synthMust(s)
		v := vecs[s.Tee]
		fam := "synthetic/status-product"
		if s.Match != nil {
			fam = "synthetic/tcb-level-matching"
		} else if s.Dev != "" {
			fam = "synthetic/deviation"
		}
		if e.noteDistinct(v, &c.In) {
			e.fam(fam).mutants.Add(1)
		}
		out := e.checkV0(v, v.V0, fam, s.String(), "bundle", &c.In, tp{synthT, c.Pol, "synthetic"}, must)
		amu.Lock()
		if out.Accepted {
			accepted++
		}
		if must == "" {
			mustAccepted++
			if !out.Accepted && out.Panic == "" {
				e.overstrict.Add(1)
				e.sample("overstrict", 4, map[string]any{"note": "implementation stricter than the reference verdict (not a violation)", "spec": s, "error": out.Err})
			}
		}
		amu.Unlock()
		if i%997 == 0 {
			e.sample("synthetic", 5, map[string]any{"vector": v.Name, "spec": s, "reference_must_reject": must, "result": resString(out)})
		}
	})
	r.Set("synthetic_bundles", int64(len(specs)))
	r.Set("synthetic_accepted", accepted)
	r.Set("synthetic_reference_acceptable", mustAccepted)
}
