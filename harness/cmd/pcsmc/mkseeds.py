#!/usr/bin/env python3
"""Writes the deliberate property-breaking variants used to demonstrate that
pcsmc/C18 detects them (never touches /repo): edited copies of repo files and
overlay JSONs under /tmp/pcsmut/.  Use:
  python3 mkseeds.py
  VERIF_OVERLAY_EXTRA=/tmp/pcsmut/<name>.json VERIF_OUT=/tmp/pcsmut/<name>.bin bin/build pcsmc
  VERIF_NO_EVIDENCE=1 VERIF_ROOT=/tmp/pcsmut/root /tmp/pcsmut/<name>.bin C18 --tier quick
"""
import json, os
os.makedirs('/tmp/pcsmut', exist_ok=True)
Q = '/repo/go/common/sgx/pcs/quote.go'
T = '/repo/go/common/sgx/pcs/tcb.go'
P = '/repo/go/common/sgx/pcs/policy.go'
N = '/repo/go/common/node/sgx.go'

def mut(name, path, old, new):
    s = open(path).read()
    assert old in s, (name, 'pattern not found')
    out = '/tmp/pcsmut/%s_%s' % (name, os.path.basename(path))
    open(out, 'w').write(s.replace(old, new, 1))
    json.dump({"Replace": {path: out}}, open('/tmp/pcsmut/%s.json' % name, 'w'))

mut('M1_skip_qe_binding', Q, '''	if !bytes.Equal(qe.QEReport.reportData[:32], expectedHash) {
		return fmt.Errorf("pcs/quote: QE report data does not match expected value")
	}
''', '''	_ = expectedHash
''')
mut('M2_skip_tcbinfo_sig', T, '''func (st *SignedTCBInfo) open(teeType TeeType, ts time.Time, policy *QuotePolicy, pk *ecdsa.PublicKey) (*TCBInfo, error) {
	if err := verifyTCBSignature(st.TCBInfo, st.Signature, pk); err != nil {
		return nil, err
	}
''', '''func (st *SignedTCBInfo) open(teeType TeeType, ts time.Time, policy *QuotePolicy, pk *ecdsa.PublicKey) (*TCBInfo, error) {
	_ = pk
''')
mut('M3_accept_outofdate', T, '''	case StatusUpToDate, StatusSWHardeningNeeded:
		// These are ok.
		return nil
	case StatusOutOfDate, StatusConfigurationNeeded, StatusOutOfDateConfigurationNeeded:''', '''	case StatusUpToDate, StatusSWHardeningNeeded, StatusOutOfDate:
		// These are ok.
		return nil
	case StatusConfigurationNeeded, StatusOutOfDateConfigurationNeeded:''')
mut('M3b_outofdate_when_min0', T, '''	err = tcbInfo.validateTCBLevel(sgxCompSvn, tdxCompSvn, pcesvn)
	if err != nil {''', '''	err = tcbInfo.validateTCBLevel(sgxCompSvn, tdxCompSvn, pcesvn)
	if tle, ok := err.(*TCBOutOfDateError); ok && tle.Status == StatusOutOfDate && policy.MinTCBEvaluationDataNumber == 0 {
		err = nil
	}
	if err != nil {''')
mut('M4_skip_quote_sig', Q, '''	if !qs.signature.Verify(attPk, expectedHash) {
		return fmt.Errorf("pcs/quote: failed to verify quote signature")
	}
''', '''	_, _ = attPk, expectedHash
''')
mut('M5_skip_tcbinfo_expiry', T, '''	if ts.Sub(issueDate).Nanoseconds() > int64(policy.TCBValidityPeriod)*24*int64(time.Hour) {
		return fmt.Errorf("pcs/tcb: TCB info expired")
	}
''', '')
mut('M6_fmspc_prefix', T, '''	if !bytes.Equal(fmspc, expectedFmspc) {''', '''	if !bytes.HasPrefix(fmspc, expectedFmspc) {''')
mut('M7_skip_tcbinfo_id', T, '''	case TeeTypeTDX:
		if ti.ID != tcbInfoTDX {
			return fmt.Errorf("pcs/tcb: unexpected TCB info identifier: %s", ti.ID)
		}''', '''	case TeeTypeTDX:''')
mut('M8_qe_status_any', T, '''	if matchedTCBLevel.Status != StatusUpToDate {
		return &TCBOutOfDateError{
			Kind:        TCBKindEnclave,
			Status:      matchedTCBLevel.Status,
			AdvisoryIDs: matchedTCBLevel.AdvisoryIDs,
		}
	}

	return nil
}''', '''	if matchedTCBLevel.Status == StatusRevoked {
		return &TCBOutOfDateError{
			Kind:        TCBKindEnclave,
			Status:      matchedTCBLevel.Status,
			AdvisoryIDs: matchedTCBLevel.AdvisoryIDs,
		}
	}

	return nil
}''')
mut('M9_skip_qe_report_sig', Q, '''	if !qe.QEReportSignature.Verify(pckInfo.PublicKey, reportHash[:]) {
		return fmt.Errorf("pcs/quote: failed to verify QE report signature using PCK public key")
	}
''', '''	_ = reportHash
''')
mut('M10_issue_future_off_by_one', T, '''	if issueDate.After(ts) {
		return fmt.Errorf("pcs/tcb: QE identity issue date in the future")
	}''', '''	if issueDate.After(ts.Add(time.Second)) {
		return fmt.Errorf("pcs/tcb: QE identity issue date in the future")
	}''')
mut('M11_node_skip_rak', N, '''	if !rakHash.Equal(&reportDataRAKHash) {
		return ErrRAKHashMismatch
	}
''', '''	_ = rakHash
''')
mut('M12_mineval_qe_only', T, '''	if ti.TCBEvaluationDataNumber < policy.MinTCBEvaluationDataNumber {
		return fmt.Errorf("pcs/tcb: invalid TCB evaluation data number")
	}
''', '')
mut('M13_tdx_module_policy_or', P, '''	if mp.MrSeam != nil {
		if *mp.MrSeam != report.mrSeam {
			return false
		}
	}
''', '''	if mp.MrSeam != nil {
		if *mp.MrSeam == report.mrSeam {
			return true
		}
	}
''')
print('\n'.join(sorted(f for f in os.listdir('/tmp/pcsmut') if f.endswith('.json'))))
