// qmc decides C20: exhaustive enumeration of operation sequences on the real
// runtime transaction scheduler, checked step by step against a set-valued
// reference model.
package main

import (
	"encoding/json"
	"fmt"
	"math"
	"os"
	"sort"
	"strings"
	"time"

	"github.com/oasisprotocol/oasis-core/go/common/crypto/hash"
	"github.com/oasisprotocol/oasis-core/go/runtime/txpool"

	"verif/harness/internal/ev"
)

// ---- letters -------------------------------------------------------------

type letter struct {
	Op     string `json:"op"` // add | sched | reset | used | usedlast | usedunk | fwd | all
	Sender int    `json:"sender,omitempty"`
	Off    uint64 `json:"off,omitempty"`   // sequence offset from the window base
	Prio   uint64 `json:"prio,omitempty"`  // priority
	State  uint64 `json:"state,omitempty"` // account sequence offset handed to add / fwd target
	Limit  int    `json:"limit,omitempty"`
}

func (l letter) String() string {
	switch l.Op {
	case "add":
		return fmt.Sprintf("add(s%d,seq+%d,p%d,acct+%d)", l.Sender, l.Off, l.Prio, l.State)
	case "sched":
		return fmt.Sprintf("schedule(%d)", l.Limit)
	case "used":
		return fmt.Sprintf("used(s%d,seq+%d)", l.Sender, l.Off)
	case "fwd":
		return fmt.Sprintf("forward(s%d,+%d)", l.Sender, l.State)
	}
	return l.Op
}

func alphabet(thorough bool) []letter {
	var ls []letter
	// Simplest first.
	for off := uint64(0); off < 3; off++ {
		for p := uint64(1); p <= 3; p++ {
			ls = append(ls, letter{Op: "add", Sender: 1, Off: off, Prio: p})
		}
	}
	for off := uint64(0); off < 3; off++ {
		ls = append(ls, letter{Op: "add", Sender: 2, Off: off, Prio: 2})
	}
	ls = append(ls, letter{Op: "add", Sender: 2, Off: 0, Prio: 3}, letter{Op: "add", Sender: 2, Off: 0, Prio: 1})
	ls = append(ls, letter{Op: "add", Sender: 1, Off: 1, Prio: 2, State: 1}, letter{Op: "add", Sender: 1, Off: 2, Prio: 1, State: 2})
	for lim := 1; lim <= 3; lim++ {
		ls = append(ls, letter{Op: "sched", Limit: lim})
	}
	ls = append(ls, letter{Op: "sched", Limit: 0})
	ls = append(ls, letter{Op: "reset"})
	ls = append(ls, letter{Op: "used", Sender: 1, Off: 0}, letter{Op: "used", Sender: 1, Off: 1}, letter{Op: "used", Sender: 2, Off: 0})
	ls = append(ls, letter{Op: "usedlast"}, letter{Op: "usedunk"})
	ls = append(ls, letter{Op: "fwd", Sender: 1, State: 1}, letter{Op: "fwd", Sender: 1, State: 2}, letter{Op: "fwd", Sender: 2, State: 1})
	if thorough {
		ls = append(ls, letter{Op: "add", Sender: 2, Off: 1, Prio: 3}, letter{Op: "fwd", Sender: 1, State: 3}, letter{Op: "used", Sender: 1, Off: 2})
	}
	return ls
}

type config struct {
	Base     uint64 `json:"base"`
	Capacity int    `json:"capacity"`
}

// Window bases: small numbers, the 2^63 boundary, and the 2^64-1 boundary.
// A base of MaxUint64-2 makes offsets 0..2 reach exactly MaxUint64.
var bases = []uint64{0, math.MaxInt64 - 1, math.MaxInt64, math.MaxUint64 - 2, math.MaxUint64 - 1}

// ---- reference model -----------------------------------------------------

type mtx struct {
	h      hash.Hash
	sender string
	seq    uint64
	prio   uint64
}

type msender struct {
	base uint64
	txs  map[uint64]*mtx
}

type model struct {
	capacity int
	senders  map[string]*msender
	byHash   map[hash.Hash]*mtx
	pass     map[string]uint64 // last scheduled sequence per sender in this pass
	passSet  map[hash.Hash]bool
}

func newModel(capacity int) *model {
	return &model{capacity: capacity, senders: map[string]*msender{}, byHash: map[hash.Hash]*mtx{}, pass: map[string]uint64{}, passSet: map[hash.Hash]bool{}}
}

func (m *model) del(t *mtx) {
	delete(m.byHash, t.h)
	s := m.senders[t.sender]
	if s == nil {
		return
	}
	if s.txs[t.seq] == t {
		delete(s.txs, t.seq)
	}
	if len(s.txs) == 0 {
		delete(m.senders, t.sender)
	}
}

func (m *model) forward(sender string, seq uint64) {
	s := m.senders[sender]
	if s == nil || seq <= s.base {
		return
	}
	s.base = seq
	for q, t := range s.txs {
		if q < seq {
			m.del(t)
		}
	}
}

// readyMust: transactions every reading of the property calls ready.
// readyMay: additionally those only one reading calls ready (sender was
// forwarded past its last scheduled sequence during a pass).
func (m *model) ready() (must, may []*mtx) {
	for name, s := range m.senders {
		last, in := m.pass[name]
		if !in {
			if t := s.txs[s.base]; t != nil {
				must = append(must, t)
				may = append(may, t)
			}
			continue
		}
		if last != math.MaxUint64 && s.base <= last+1 {
			if t := s.txs[last+1]; t != nil {
				must = append(must, t)
				may = append(may, t)
			}
			continue
		}
		if last != math.MaxUint64 && s.base > last+1 {
			// Forwarded beyond the pass: the text allows scheduling base, the
			// implementation waits for the next pass.  Both accepted.
			if t := s.txs[s.base]; t != nil && !m.passSet[t.h] {
				may = append(may, t)
			}
		}
	}
	return
}

// ---- execution -----------------------------------------------------------

type exec struct {
	cfg   config
	impl  *txpool.VerifScheduler
	m     *model
	ntx   int
	last  []hash.Hash // result of the last scheduling call
	trace []string
}

func senderName(i int) string { return fmt.Sprintf("sender-%d", i) }

func hashesOf(ms []*txpool.TxQueueMeta) []hash.Hash {
	out := make([]hash.Hash, len(ms))
	for i, t := range ms {
		out[i] = t.Hash()
	}
	return out
}

// step applies one letter to both and returns "" or a violation description.
func (e *exec) step(l letter, record bool) (res string) {
	defer func() {
		if p := recover(); p != nil {
			res = fmt.Sprintf("panic in %s: %v", l, p)
		}
	}()
	m := e.m
	obs := ""
	switch l.Op {
	case "add":
		seq := e.cfg.Base + l.Off
		if seq < e.cfg.Base { // wrapped: outside the window, skip as no-op
			return ""
		}
		acct := e.cfg.Base + l.State
		if acct < e.cfg.Base {
			return ""
		}
		e.ntx++
		raw := []byte(fmt.Sprintf("tx-%d-%s", e.ntx, l))
		sender := senderName(l.Sender)
		vt := txpool.VerifNewTx(raw, sender, seq, l.Prio)
		// through the real mainQueue.Add (the reference: the sender is forwarded to the reported account
		// sequence first, then the transaction is added)
		err := e.impl.QueueAdd(vt, acct)
		m.forward(sender, acct)
		nt := &mtx{h: vt.Hash(), sender: sender, seq: seq, prio: l.Prio}
		s := m.senders[sender]
		base := acct
		if s != nil {
			base = s.base
		}
		switch {
		case seq < base:
			if err == nil || !strings.Contains(err.Error(), "expired") {
				return fmt.Sprintf("%s: expected 'expired' rejection, got %v", l, err)
			}
			obs = "expired"
		case s != nil && s.txs[seq] != nil:
			old := s.txs[seq]
			if old.prio >= nt.prio {
				if err == nil {
					return fmt.Sprintf("%s: same-sequence replacement by priority %d accepted over priority %d", l, nt.prio, old.prio)
				}
				obs = "repl-underpriced"
			} else {
				if err != nil {
					return fmt.Sprintf("%s: strictly higher priority replacement rejected: %v", l, err)
				}
				wasScheduled := m.passSet[old.h]
				m.del(old)
				if m.senders[sender] == nil {
					m.senders[sender] = &msender{base: base, txs: map[uint64]*mtx{}}
				}
				m.senders[sender].txs[seq] = nt
				m.byHash[nt.h] = nt
				if wasScheduled {
					m.passSet[nt.h] = true // same slot already handed out in this pass
				}
				obs = "replaced"
			}
		default:
			if s == nil {
				s = &msender{base: base, txs: map[uint64]*mtx{}}
				m.senders[sender] = s
			}
			s.txs[seq] = nt
			m.byHash[nt.h] = nt
			obs = "added"
			if len(m.byHash) > m.capacity {
				// One lowest-priority transaction must go; adopt the implementation's choice.
				var minp uint64 = math.MaxUint64
				for _, t := range m.byHash {
					if t.prio < minp {
						minp = t.prio
					}
				}
				var victims []*mtx
				for _, t := range m.byHash {
					if !e.impl.Has(t.h) {
						victims = append(victims, t)
					}
				}
				if len(victims) != 1 {
					return fmt.Sprintf("%s: over capacity %d: expected exactly one eviction, implementation dropped %d", l, m.capacity, len(victims))
				}
				v := victims[0]
				if v.prio != minp {
					return fmt.Sprintf("%s: evicted priority %d while lowest priority is %d", l, v.prio, minp)
				}
				m.del(v)
				if v == nt {
					if err == nil {
						return fmt.Sprintf("%s: new transaction evicted but add reported success", l)
					}
					obs = "evicted-self"
				} else {
					if err != nil {
						return fmt.Sprintf("%s: other transaction evicted but add failed: %v", l, err)
					}
					obs = "evicted-other"
				}
			} else if err != nil {
				return fmt.Sprintf("%s: valid add rejected: %v", l, err)
			}
		}
	case "sched":
		got := hashesOf(e.impl.Schedule(l.Limit))
		e.last = got
		if len(got) > l.Limit {
			return fmt.Sprintf("%s: returned %d > limit", l, len(got))
		}
		for i, h := range got {
			t := m.byHash[h]
			if t == nil {
				return fmt.Sprintf("%s: scheduled a transaction not in the pool (pick %d)", l, i)
			}
			if m.passSet[h] {
				return fmt.Sprintf("%s: transaction s=%s seq=%d scheduled twice in one pass", l, t.sender, t.seq)
			}
			must, may := m.ready()
			okMay := false
			for _, r := range may {
				if r == t {
					okMay = true
				}
			}
			if !okMay {
				return fmt.Sprintf("%s: pick %d s=%s seq=%d is not ready (sender order violated)", l, i, t.sender, t.seq)
			}
			for _, r := range must {
				if r.prio > t.prio {
					return fmt.Sprintf("%s: pick %d has priority %d while a ready transaction has priority %d", l, i, t.prio, r.prio)
				}
			}
			m.pass[t.sender] = t.seq
			m.passSet[h] = true
		}
		if len(got) < l.Limit {
			if must, _ := m.ready(); len(must) > 0 {
				r := must[0]
				return fmt.Sprintf("%s: returned %d < limit although s=%s seq=%d prio=%d is ready", l, len(got), r.sender, r.seq, r.prio)
			}
		}
		obs = fmt.Sprintf("sched%d", len(got))
	case "reset":
		e.impl.Reset()
		m.pass = map[string]uint64{}
		m.passSet = map[hash.Hash]bool{}
		obs = "reset"
	case "used", "usedlast", "usedunk":
		var h hash.Hash
		switch l.Op {
		case "used":
			s := m.senders[senderName(l.Sender)]
			if s == nil || s.txs[e.cfg.Base+l.Off] == nil || e.cfg.Base+l.Off < e.cfg.Base {
				return ""
			}
			h = s.txs[e.cfg.Base+l.Off].h
		case "usedlast":
			if len(e.last) == 0 {
				return ""
			}
			h = e.last[0]
		default:
			h = hash.NewFromBytes([]byte("unknown"))
		}
		e.impl.HandleTxUsed(h)
		if t := m.byHash[h]; t != nil {
			m.del(t)
			if t.seq < math.MaxUint64 {
				m.forward(t.sender, t.seq+1)
			}
		}
		obs = "used"
	case "fwd":
		tgt := e.cfg.Base + l.State
		if tgt < e.cfg.Base {
			return ""
		}
		e.impl.Forward(senderName(l.Sender), tgt)
		m.forward(senderName(l.Sender), tgt)
		obs = "fwd"
	}
	// Contents must agree after every letter.
	all := e.impl.All()
	if len(all) != len(m.byHash) || e.impl.Size() != len(m.byHash) {
		return fmt.Sprintf("%s: pool holds %d (size()=%d), reference holds %d", l, len(all), e.impl.Size(), len(m.byHash))
	}
	for _, t := range all {
		if m.byHash[t.Hash()] == nil {
			return fmt.Sprintf("%s: pool holds a transaction the reference does not", l)
		}
	}
	if len(all) > m.capacity {
		return fmt.Sprintf("%s: pool holds %d > capacity %d", l, len(all), m.capacity)
	}
	if record {
		e.trace = append(e.trace, obs)
	}
	return ""
}

type artefact struct {
	Config  config   `json:"config"`
	Letters []letter `json:"letters"`
}

// runSeq executes a whole sequence on a fresh instance and then closes every
// run with reset + schedule(all) so that damage done by the last letter shows.
func runSeq(cfg config, seq []letter, record bool) (string, []string) {
	e := &exec{cfg: cfg, impl: txpool.VerifNewScheduler(cfg.Capacity), m: newModel(cfg.Capacity)}
	for i, l := range seq {
		if r := e.step(l, record); r != "" {
			return fmt.Sprintf("step %d: %s", i, r), e.trace
		}
	}
	for i, l := range []letter{{Op: "reset"}, {Op: "sched", Limit: 4}, {Op: "reset"}} {
		if r := e.step(l, record); r != "" {
			return fmt.Sprintf("closing step %d: %s", i, r), e.trace
		}
	}
	return "", e.trace
}

func main() {
	r := ev.Parse("model_checking")
	if r.Replay != "" {
		v, err := ev.LoadReplay(r.Replay)
		if err != nil {
			fmt.Println("cannot load replay:", err)
			os.Exit(2)
		}
		b, _ := json.Marshal(v.Artefact)
		var a artefact
		_ = json.Unmarshal(b, &a)
		res, tr := runSeq(a.Config, a.Letters, true)
		fmt.Println("trace:", tr)
		if res != "" {
			fmt.Printf("VIOLATION property=C20 replay=%s\n  what: %s\n", r.Replay, res)
			os.Exit(1)
		}
		fmt.Println("replay: property held")
		os.Exit(0)
	}

	alpha := alphabet(r.Thorough())
	depth := 4
	caps := []int{1, 2, 3}
	if r.Thorough() {
		depth = 5
	}
	if d := os.Getenv("VERIF_QMC_DEPTH"); d != "" {
		fmt.Sscan(d, &depth)
	}
	var cfgs []config
	for _, b := range bases {
		for _, c := range caps {
			cfgs = append(cfgs, config{Base: b, Capacity: c})
		}
	}
	// Self-check: determinism of one fixed history (same transcript twice).
	{
		seq := []letter{alpha[0], alpha[4], alpha[9], {Op: "sched", Limit: 2}, {Op: "usedlast"}, {Op: "sched", Limit: 2}}
		_, t1 := runSeq(cfgs[0], seq, true)
		_, t2 := runSeq(cfgs[0], seq, true)
		if strings.Join(t1, ",") != strings.Join(t2, ",") {
			r.HarnessError("non-deterministic replay: %v vs %v", t1, t2)
		}
	}
	n := len(alpha)
	// Shard on (config, first two letters).
	type shard struct {
		cfg    config
		l0, l1 int
	}
	var shards []shard
	for _, c := range cfgs {
		for i := 0; i < n; i++ {
			for j := 0; j < n; j++ {
				shards = append(shards, shard{c, i, j})
			}
		}
	}
	r.Set("letters", n)
	r.Set("depth", depth)
	r.Set("configs", len(cfgs))
	var alphaStr []string
	for _, l := range alpha {
		alphaStr = append(alphaStr, l.String())
	}
	r.Set("alphabet", alphaStr)
	ev.ParallelRange(len(shards), r.Seed, func(si int) {
		sh := shards[si]
		if r.Expired() {
			r.Cap("deadline")
			return
		}
		idx := make([]int, depth)
		idx[0], idx[1] = sh.l0, sh.l1
		seq := make([]letter, depth)
		var execs, steps int64
		outcomes := map[string]struct{}{}
		for {
			for k := range idx {
				seq[k] = alpha[idx[k]]
			}
			res, tr := runSeq(sh.cfg, seq, true)
			execs++
			steps += int64(depth + 3)
			if len(outcomes) < 4096 {
				outcomes[strings.Join(tr, ",")] = struct{}{}
			}
			if res != "" {
				// minimise: shortest failing prefix
				best := append([]letter(nil), seq...)
				for k := 1; k < depth; k++ {
					if rr, _ := runSeq(sh.cfg, seq[:k], false); rr != "" {
						best = append([]letter(nil), seq[:k]...)
						res = rr
						break
					}
				}
				var names []string
				for _, l := range best {
					names = append(names, l.String())
				}
				what := res
				// classify by failure kind + boundary so that a different failure is still reported
				key := fmt.Sprintf("qmc base=%d cap=%d %s :: %s", sh.cfg.Base, sh.cfg.Capacity, strings.Join(names, " "), classify(res))
				r.Violate(ev.Violation{Engine: "qmc", Key: key, What: fmt.Sprintf("base=%d capacity=%d history=[%s]: %s", sh.cfg.Base, sh.cfg.Capacity, strings.Join(names, " "), what), Artefact: artefact{Config: sh.cfg, Letters: best}})
			}
			// next index (positions 2..depth-1)
			k := depth - 1
			for k >= 2 {
				idx[k]++
				if idx[k] < n {
					break
				}
				idx[k] = 0
				k--
			}
			if k < 2 {
				break
			}
		}
		r.Add("transitions", steps)
		r.Add("states", execs)
		r.Add("traces_validated_against_impl", execs)
		for o := range outcomes {
			r.Outcome(o)
		}
		if si%97 == 0 {
			var names []string
			for _, l := range seq {
				names = append(names, l.String())
			}
			r.Sample(map[string]any{"base": sh.cfg.Base, "capacity": sh.cfg.Capacity, "history": names}, 5)
		}
	})
	r.Set("rule", "every operation sequence of length depth over the alphabet, for every (window base, capacity); states = executions (stateless search, each a fresh real scheduler), transitions = letters applied incl. 3 closing letters; each step compared with the reference model")
	r.Assume("single-threaded scheduler (the mutex wrapper mainQueue is trusted)", "alphabet: 2 senders, 3 sequence offsets per window, priorities 1..3, capacities 1..3", "transactions are added through the real mainQueue.Add with check-tx metadata (sender, sequence, priority, account sequence); the other letters call the scheduler it owns")
	_ = time.Now
	_ = sort.Strings
	r.Finish()
}

func classify(res string) string {
	switch {
	case strings.Contains(res, "panic"):
		return "panic"
	case strings.Contains(res, "< limit although"):
		return "ready-not-scheduled"
	case strings.Contains(res, "not ready"):
		return "order"
	case strings.Contains(res, "twice"):
		return "twice"
	case strings.Contains(res, "priority"):
		return "priority"
	case strings.Contains(res, "holds"):
		return "contents"
	}
	return "other"
}
