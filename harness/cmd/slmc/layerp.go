package main

// Layer P: the light block provider that feeds the light client from untrusted
// peers (go/consensus/cometbft/light/provider.go).  CometBFT's light client
// relies on its provider to return the light block *of the requested height*
// (its own HTTP provider checks that); it verifies whatever it is given at the
// height the signed header states, and hands it back as the answer.  A peer
// that answers a request for height H with the genuine, correctly signed light
// block of another height H' must therefore be refused by the provider, or the
// stateless node binds data to the header of another height.

import (
	"context"
	"fmt"
	"time"

	cmtdb "github.com/cometbft/cometbft-db"
	cmtlight "github.com/cometbft/cometbft/light"
	cmtlightprovider "github.com/cometbft/cometbft/light/provider"
	cmtlightdb "github.com/cometbft/cometbft/light/store/db"
	"github.com/libp2p/go-libp2p/core"

	consensusAPI "github.com/oasisprotocol/oasis-core/go/consensus/api"
	"github.com/oasisprotocol/oasis-core/go/consensus/cometbft/light"
	p2plight "github.com/oasisprotocol/oasis-core/go/consensus/p2p/light"
	"github.com/oasisprotocol/oasis-core/go/p2p/rpc"
)

type nopFeedback struct{ id core.PeerID }

func (nopFeedback) RecordSuccess()         {}
func (nopFeedback) RecordFailure()         {}
func (nopFeedback) RecordBadPeer()         {}
func (f nopFeedback) PeerID() core.PeerID { return f.id }

// peerRPC is an untrusted peer: answers GetLightBlock(h) with answer(h).
type peerRPC struct {
	rpc.Client
	answer func(h int64) (*consensusAPI.LightBlock, error)
}

func (p *peerRPC) Call(_ context.Context, peer core.PeerID, method string, body, rsp any, _ ...rpc.CallOption) (rpc.PeerFeedback, error) {
	if method != p2plight.MethodGetLightBlock {
		return nil, fmt.Errorf("unsupported")
	}
	lb, err := p.answer(body.(int64))
	if err != nil {
		return nil, err
	}
	*(rsp.(*consensusAPI.LightBlock)) = *lb
	return nopFeedback{peer}, nil
}

type nopPeerMgr struct{ rpc.PeerManager }

func (nopPeerMgr) RecordBadPeer(core.PeerID)                                   {}
func (nopPeerMgr) RecordFailure(core.PeerID, time.Duration)                    {}
func (nopPeerMgr) RecordSuccess(core.PeerID, time.Duration)                    {}
func (nopPeerMgr) GetBestPeers(...rpc.BestPeersOption) []core.PeerID           { return nil }

func (u *Universe) familiesP() []Family {
	var fams []Family
	for _, ch := range u.Chains {
		if ch.Name != "synthetic" {
			continue
		}
		ch := ch
		honest := func(h int64) (*consensusAPI.LightBlock, error) {
			lb := ch.LBs[h]
			if lb == nil {
				return nil, fmt.Errorf("no such block")
			}
			return light.EncodeLightBlock(lb, h)
		}
		var cs []Case
		for _, h := range ch.Heights {
			h := h
			cs = append(cs, Case{Desc: fmt.Sprintf("honest peer, height %d", h), Digest: uint64(h), Run: func(*Worker) Result {
				p := light.VerifNewProvider(ch.ChainID, &peerRPC{answer: honest}, nopPeerMgr{}, "peer")
				lb, err := p.LightBlock(context.Background(), h)
				if err != nil || lb.Height != h {
					return Result{Class: "violation", Violation: fmt.Sprintf("honest light block of height %d refused or altered: %v", h, err)}
				}
				return accepted(nil)
			}})
			for _, other := range ch.Heights {
				other := other
				if other == h {
					continue
				}
				lying := func(req int64) (*consensusAPI.LightBlock, error) {
					lb, err := honest(other)
					if err != nil {
						return nil, err
					}
					lb.Height = req // the wrapper claims the requested height, the signed header inside is of another
					return lb, nil
				}
				// (1) the provider alone
				cs = append(cs, Case{Desc: fmt.Sprintf("request %d answered with the genuine light block of %d (wrapper height %d)", h, other, h), Digest: uint64(h)<<32 | uint64(other), Run: func(*Worker) Result {
					p := light.VerifNewProvider(ch.ChainID, &peerRPC{answer: lying}, nopPeerMgr{}, "peer")
					lb, err := p.LightBlock(context.Background(), h)
					if err != nil {
						return rejected(err)
					}
					if lb.Height != h {
						return Result{Accepted: true, Class: "violation", Violation: fmt.Sprintf("light block provider: a request for height %d is answered with the signed header of height %d", h, lb.Height)}
					}
					return accepted(nil)
				}})
				// (2) end to end: a light client trusting the first height, primary = the lying peer, witness = an honest peer
				cs = append(cs, Case{Desc: fmt.Sprintf("light client: request %d, primary answers with the genuine light block of %d", h, other), Digest: uint64(h)<<32 | uint64(other) | 1<<63, Run: func(*Worker) Result {
					store := cmtlightdb.New(cmtdb.NewMemDB(), "")
					first := ch.LBs[ch.Heights[0]]
					if err := store.SaveLightBlock(first); err != nil {
						return Result{Class: "violation", Violation: "harness: " + err.Error()}
					}
					trust := cmtlight.TrustOptions{Period: 1000000 * time.Hour, Height: first.Height, Hash: first.Hash()}
					primary := light.VerifNewProvider(ch.ChainID, &peerRPC{answer: func(req int64) (*consensusAPI.LightBlock, error) {
						if req == h {
							return lying(req)
						}
						return honest(req)
					}}, nopPeerMgr{}, "liar")
					witness := light.VerifNewProvider(ch.ChainID, &peerRPC{answer: honest}, nopPeerMgr{}, "witness")
					lc, err := light.VerifNewClient(ch.ChainID, trust, primary, []cmtlightprovider.Provider{witness}, store, cmtlight.SequentialVerification())
					if err != nil {
						return Result{Class: "violation", Violation: "harness: " + err.Error()}
					}
					if h <= first.Height {
						return accepted(nil) // already trusted: the peer is not asked
					}
					res, pan := func() (r Result, pan string) {
						defer func() {
							if p := recover(); p != nil {
								pan = fmt.Sprint(p)
							}
						}()
						got, err := lc.VerifyLightBlockAt(context.Background(), h)
						if err != nil {
							return rejected(err), ""
						}
						if got.Height != h {
							return Result{Accepted: true, Class: "violation", Violation: fmt.Sprintf("light client: the verified light block returned for height %d is the one of height %d", h, got.Height)}, ""
						}
						return accepted(nil), ""
					}()
					if pan != "" {
						return panicked(pan)
					}
					return res
				}})
			}
		}
		fams = append(fams, listFamily("P/"+ch.Name+"/light-block-provider", cs))
	}
	return fams
}
