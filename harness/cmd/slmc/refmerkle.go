package main

// Independent reference for the RFC 6962 style Merkle tree CometBFT specifies
// for Data.Hash (leaves are SHA-256 hashes of the transactions).  Used by the
// oracle only; written from the specification, not from CometBFT's code.

import (
	"bytes"
	"crypto/sha256"
)

func refLeaf(item []byte) []byte {
	h := sha256.New()
	h.Write([]byte{0})
	h.Write(item)
	return h.Sum(nil)
}

func refInner(l, r []byte) []byte {
	h := sha256.New()
	h.Write([]byte{1})
	h.Write(l)
	h.Write(r)
	return h.Sum(nil)
}

func refSplit(n int) int {
	k := 1
	for k*2 < n {
		k *= 2
	}
	return k
}

func refRoot(items [][]byte) []byte {
	switch len(items) {
	case 0:
		e := sha256.Sum256(nil)
		return e[:]
	case 1:
		return refLeaf(items[0])
	}
	k := refSplit(len(items))
	return refInner(refRoot(items[:k]), refRoot(items[k:]))
}

// refAunts returns the audit path of items[idx], leaf-to-root order.
func refAunts(items [][]byte, idx int) [][]byte {
	if len(items) <= 1 {
		return nil
	}
	k := refSplit(len(items))
	if idx < k {
		return append(refAunts(items[:k], idx), refRoot(items[k:]))
	}
	return append(refAunts(items[k:], idx-k), refRoot(items[:k]))
}

func refTxLeaves(txs [][]byte) [][]byte {
	out := make([][]byte, len(txs))
	for i, tx := range txs {
		h := sha256.Sum256(tx)
		out[i] = h[:]
	}
	return out
}

// refDataHash is the header DataHash for a transaction list.
func refDataHash(txs [][]byte) []byte { return refRoot(refTxLeaves(txs)) }

// refVerify recomputes the root from an audit path.
func refVerify(root []byte, total, index int64, leafHash []byte, aunts [][]byte, item []byte) bool {
	if total <= 0 || index < 0 || index >= total {
		return false
	}
	if !bytes.Equal(refLeaf(item), leafHash) {
		return false
	}
	h := refFromAunts(index, total, leafHash, aunts)
	return h != nil && bytes.Equal(h, root)
}

func refFromAunts(index, total int64, leaf []byte, aunts [][]byte) []byte {
	if total == 1 {
		if len(aunts) != 0 {
			return nil
		}
		return leaf
	}
	if len(aunts) == 0 {
		return nil
	}
	k := int64(refSplit(int(total)))
	last := aunts[len(aunts)-1]
	if index < k {
		l := refFromAunts(index, k, leaf, aunts[:len(aunts)-1])
		if l == nil {
			return nil
		}
		return refInner(l, last)
	}
	r := refFromAunts(index-k, total-k, leaf, aunts[:len(aunts)-1])
	if r == nil {
		return nil
	}
	return refInner(last, r)
}
