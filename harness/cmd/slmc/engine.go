package main

import (
	"fmt"
	"hash/fnv"
	"runtime/debug"
	"strings"
)

// Result is the verdict of one execution of the real code on one mutant.
type Result struct {
	Accepted  bool
	Err       string // error text when rejected
	Class     string // rejected | identical | unbound:[..] | noop | decoder-* | panic | violation
	Violation string // non-empty: property violated
	Key       string // optional stable key prefix for known-findings matching
}

// Case is one enumerated mutant.
type Case struct {
	Desc string
	// Digest identifies the mutated input for distinct counting; 0 = distinct by
	// construction (a unique position of a byte-level enumeration).
	Digest uint64
	Run    func(w *Worker) Result
}

// Family is an indexable, deterministic set of cases.
type Family struct {
	Name string
	N    int
	Gen  func(i int) Case
}

func listFamily(name string, cases []Case) Family {
	return Family{Name: name, N: len(cases), Gen: func(i int) Case { return cases[i] }}
}

// guard runs f under recover.
func guard(f func() error) (err error, pan string) {
	defer func() {
		if r := recover(); r != nil {
			// Keep the frames of the code under test only.
			var frames []string
			lines := strings.Split(string(debug.Stack()), "\n")
			for i := 0; i+1 < len(lines) && len(frames) < 4; i++ {
				loc := strings.TrimSpace(lines[i+1])
				if strings.HasPrefix(loc, "/repo/go/") || strings.Contains(loc, "/cometbft@") {
					if j := strings.Index(loc, " +0x"); j > 0 {
						loc = loc[:j]
					}
					fn := lines[i]
					if j := strings.LastIndex(fn, "("); j > 0 {
						fn = fn[:j]
					}
					if j := strings.LastIndex(fn, "/"); j >= 0 {
						fn = fn[j+1:]
					}
					if strings.Contains(loc, "verif_export.go") {
						continue
					}
					frames = append(frames, fn+" ("+loc[strings.LastIndex(loc, "/")+1:]+")")
				}
			}
			pan = fmt.Sprintf("%v [%s]", r, strings.Join(frames, " <- "))
		}
	}()
	return f(), ""
}

func printable(s string) string {
	b := []byte(s)
	for i, c := range b {
		if c < 0x20 || c > 0x7e {
			b[i] = '?'
		}
	}
	return string(b)
}

func errClass(err error) string {
	s := printable(err.Error())
	if i := strings.Index(s, ":"); i > 0 && i < 60 {
		s = s[:i]
	}
	if len(s) > 60 {
		s = s[:60]
	}
	return s
}

func rejected(err error) Result {
	return Result{Class: "rejected", Err: errClass(err)}
}

func panicked(p string) Result {
	return Result{Class: "panic", Violation: "panic in verification code: " + p}
}

// accepted builds the verdict for an accepted mutant from its difference classes.
func accepted(diff []string) Result {
	class, viol := classify(diff)
	if viol != "" {
		return Result{Accepted: true, Class: "violation", Violation: viol}
	}
	return Result{Accepted: true, Class: class}
}

func digestOf(parts ...[]byte) uint64 {
	h := fnv.New64a()
	for _, p := range parts {
		var l [4]byte
		l[0], l[1], l[2], l[3] = byte(len(p)), byte(len(p)>>8), byte(len(p)>>16), byte(len(p)>>24)
		h.Write(l[:])
		h.Write(p)
	}
	d := h.Sum64()
	if d == 0 {
		d = 1
	}
	return d
}

// ---- byte-level neighbourhoods ----------------------------------------------

func cloneBytes(b []byte) []byte {
	if b == nil {
		return nil
	}
	return append([]byte{}, b...)
}

func flipBit(b []byte, bit int) []byte {
	o := cloneBytes(b)
	o[bit/8] ^= 1 << uint(bit%8)
	return o
}

// byteNeighbourhood: every single-bit flip, every proper prefix (truncation)
// and the two one-byte extensions of b; with subst also every other value of
// every byte (the 247 values a single-bit flip does not reach).
func nByteNeighbourhood(b []byte, subst bool) int {
	n := 8*len(b) + len(b) + 2
	if subst {
		n += 247 * len(b)
	}
	return n
}

// nonFlipValues[k] is the k-th XOR mask with more than one bit set.
var nonFlipMasks = func() []byte {
	var out []byte
	for m := 1; m < 256; m++ {
		if m&(m-1) != 0 {
			out = append(out, byte(m))
		}
	}
	return out
}()

func byteNeighbour(b []byte, i int, subst bool) (out []byte, desc string) {
	switch {
	case i < 8*len(b):
		return flipBit(b, i), fmt.Sprintf("bitflip byte %d bit %d", i/8, i%8)
	case i < 9*len(b):
		n := i - 8*len(b)
		return cloneBytes(b[:n]), fmt.Sprintf("truncated to %d of %d bytes", n, len(b))
	case i == 9*len(b):
		return append(cloneBytes(b), 0x00), "extended by 0x00"
	case i == 9*len(b)+1:
		return append(cloneBytes(b), 0xff), "extended by 0xff"
	}
	k := i - 9*len(b) - 2
	pos, m := k/247, nonFlipMasks[k%247]
	o := cloneBytes(b)
	o[pos] ^= m
	return o, fmt.Sprintf("byte %d xor 0x%02x", pos, m)
}

// ---- minimal CBOR writer (for hand-made re-encodings) -------------------------

func cborHead(major byte, n uint64) []byte {
	switch {
	case n < 24:
		return []byte{major<<5 | byte(n)}
	case n < 1<<8:
		return []byte{major<<5 | 24, byte(n)}
	case n < 1<<16:
		return []byte{major<<5 | 25, byte(n >> 8), byte(n)}
	case n < 1<<32:
		return []byte{major<<5 | 26, byte(n >> 24), byte(n >> 16), byte(n >> 8), byte(n)}
	}
	return []byte{major<<5 | 27, byte(n >> 56), byte(n >> 48), byte(n >> 40), byte(n >> 32), byte(n >> 24), byte(n >> 16), byte(n >> 8), byte(n)}
}

// cborHeadWide encodes the head with a non-minimal (wider) length.
func cborHeadWide(major byte, n uint64) []byte {
	return []byte{major<<5 | 26, byte(n >> 24), byte(n >> 16), byte(n >> 8), byte(n)}
}

func cborText(s string) []byte  { return append(cborHead(3, uint64(len(s))), s...) }
func cborBytes(b []byte) []byte { return append(cborHead(2, uint64(len(b))), b...) }

func cat(parts ...[]byte) []byte {
	var o []byte
	for _, p := range parts {
		o = append(o, p...)
	}
	return o
}

// permutations of 0..n-1 (n<=4), identity first.
func permutations(n int) [][]int {
	var out [][]int
	var rec func(cur []int, used []bool)
	rec = func(cur []int, used []bool) {
		if len(cur) == n {
			out = append(out, append([]int{}, cur...))
			return
		}
		for i := 0; i < n; i++ {
			if !used[i] {
				used[i] = true
				rec(append(cur, i), used)
				used[i] = false
			}
		}
	}
	rec(nil, make([]bool, n))
	return out
}
