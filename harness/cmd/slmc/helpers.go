package main

import (
	"context"
	"fmt"

	cmted "github.com/cometbft/cometbft/crypto/ed25519"
	cmtcrypto "github.com/cometbft/cometbft/proto/tendermint/crypto"
	cmtproto "github.com/cometbft/cometbft/proto/tendermint/types"

	"github.com/oasisprotocol/oasis-core/go/common/crypto/signature"
	memorySigner "github.com/oasisprotocol/oasis-core/go/common/crypto/signature/signers/memory"
	"github.com/oasisprotocol/oasis-core/go/common/version"
	"github.com/oasisprotocol/oasis-core/go/consensus/api/transaction"
	"github.com/oasisprotocol/oasis-core/go/consensus/cometbft/consensus"
	consensusGenesis "github.com/oasisprotocol/oasis-core/go/consensus/genesis"
)

type (
	cmtcryptoEd    = cmtcrypto.PublicKey_Ed25519
	transactionOp  = transaction.Op
	transactionGas = transaction.Gas
	versionVersion = version.Version
)

func forgedValidator(i int) *cmtproto.Validator {
	pk := cmted.GenPrivKeyFromSecret([]byte(fmt.Sprintf("verif-c19-forged-validator-%d", i))).PubKey()
	return &cmtproto.Validator{
		Address:     pk.Address(),
		PubKey:      cmtcrypto.PublicKey{Sum: &cmtcrypto.PublicKey_Ed25519{Ed25519: pk.Bytes()}},
		VotingPower: 1000,
	}
}

func forgedOasisKey() signature.PublicKey {
	return memorySigner.NewTestSigner("verif-c19-forged-key").Public()
}

// stubQueryFactory stands in for the light query factory (state proven against
// the verified state root — property C04's territory): it answers the honest
// consensus parameters of the chain.
type stubQueryFactory struct{ ch *Chain }

type stubQuery struct {
	p *consensusGenesis.Parameters
}

func (f *stubQueryFactory) QueryAt(_ context.Context, height int64) (consensus.Query, error) {
	hon, ok := f.ch.Honest[height]
	if !ok || hon.GenesisParams == nil {
		return nil, fmt.Errorf("stub: no state at height %d", height)
	}
	return &stubQuery{p: hon.GenesisParams}, nil
}

func (q *stubQuery) ChainContext(context.Context) (string, error) { return synChainContext, nil }

func (q *stubQuery) ConsensusParameters(context.Context) (*consensusGenesis.Parameters, error) {
	return q.p, nil
}
