package main

import (
	"bytes"
	"encoding/json"
	"fmt"
	"os"
	"path/filepath"
	"time"

	cmtabcitypes "github.com/cometbft/cometbft/abci/types"
	cmted "github.com/cometbft/cometbft/crypto/ed25519"
	cmtproto "github.com/cometbft/cometbft/proto/tendermint/types"
	cmtversion "github.com/cometbft/cometbft/proto/tendermint/version"
	cmtcoretypes "github.com/cometbft/cometbft/rpc/core/types"
	cmttypes "github.com/cometbft/cometbft/types"

	"github.com/oasisprotocol/oasis-core/go/common/cbor"
	"github.com/oasisprotocol/oasis-core/go/common/crypto/hash"
	"github.com/oasisprotocol/oasis-core/go/common/crypto/signature"
	memorySigner "github.com/oasisprotocol/oasis-core/go/common/crypto/signature/signers/memory"
	"github.com/oasisprotocol/oasis-core/go/common/quantity"
	consensusAPI "github.com/oasisprotocol/oasis-core/go/consensus/api"
	"github.com/oasisprotocol/oasis-core/go/consensus/api/transaction"
	cmtAPI "github.com/oasisprotocol/oasis-core/go/consensus/cometbft/api"
	"github.com/oasisprotocol/oasis-core/go/consensus/cometbft/light"
	consensusGenesis "github.com/oasisprotocol/oasis-core/go/consensus/genesis"
	stakingAPI "github.com/oasisprotocol/oasis-core/go/staking/api"
)

// Honest holds what an honest provider answers for one height.
type Honest struct {
	Height  int64
	Block   *consensusAPI.Block
	Txs     [][]byte // nil+HasTxs=false when not recorded
	HasTxs  bool
	Results *consensusAPI.BlockResults
	// Validators is the validator set OF this height (what GetValidators(Height) answers).
	Validators *consensusAPI.Validators
	Params     *consensusAPI.Parameters
	// GenesisParams is what the trusted state query answers at this height.
	GenesisParams *consensusGenesis.Parameters
	// StateRoot is the state root after executing this block (= next header's AppHash
	// = StateRoot in this block's metadata transaction); zero when unknown.
	StateRoot    hash.Hash
	HasStateRoot bool
}

// Chain is one enumerated universe: trusted light blocks plus honest answers.
type Chain struct {
	Name    string
	ChainID string
	LBs     map[int64]*cmttypes.LightBlock
	Heights []int64 // ascending, trusted heights
	Honest  map[int64]*Honest
}

func (c *Chain) Latest() int64 { return c.Heights[len(c.Heights)-1] }

func repoTestdata() string {
	if d := os.Getenv("VERIF_C19_TESTDATA"); d != "" {
		return d
	}
	return "/repo/go/consensus/cometbft/stateless/testdata"
}

func loadJSON(name string, v any) error {
	b, err := os.ReadFile(filepath.Join(repoTestdata(), name))
	if err != nil {
		return err
	}
	return json.Unmarshal(b, v)
}

// loadRecorded loads the recorded pair exactly as core_test.go does.
func loadRecorded() (*Chain, error) {
	var clb, clb2 consensusAPI.LightBlock
	if err := loadJSON("light_block_25300000.json", &clb); err != nil {
		return nil, err
	}
	if err := loadJSON("light_block_25300001.json", &clb2); err != nil {
		return nil, err
	}
	lb, err := light.DecodeLightBlock(&clb)
	if err != nil {
		return nil, err
	}
	lb2, err := light.DecodeLightBlock(&clb2)
	if err != nil {
		return nil, err
	}
	var blk consensusAPI.Block
	if err := loadJSON("block_25300000.json", &blk); err != nil {
		return nil, err
	}
	var res consensusAPI.BlockResults
	if err := loadJSON("results_25300000.json", &res); err != nil {
		return nil, err
	}
	var txs [][]byte
	if err := loadJSON("txs_25300000.json", &txs); err != nil {
		return nil, err
	}
	c := &Chain{Name: "recorded", ChainID: lb.ChainID, LBs: map[int64]*cmttypes.LightBlock{}, Honest: map[int64]*Honest{}}
	c.LBs[lb.Height] = lb
	c.LBs[lb2.Height] = lb2
	c.Heights = []int64{lb.Height, lb2.Height}
	h := &Honest{Height: lb.Height, Block: &blk, Txs: txs, HasTxs: true, Results: &res}
	if v, err := light.EncodeValidators(lb.ValidatorSet, lb.Height); err == nil {
		h.Validators = v
	}
	var sr hash.Hash
	if err := sr.UnmarshalBinary(lb2.AppHash); err == nil {
		h.StateRoot, h.HasStateRoot = sr, true
	}
	c.Honest[lb.Height] = h
	h2 := &Honest{Height: lb2.Height}
	if v, err := light.EncodeValidators(lb2.ValidatorSet, lb2.Height); err == nil {
		h2.Validators = v
	}
	c.Honest[lb2.Height] = h2
	// The validator set after the last trusted height is known when it does not change.
	if bytes.Equal(lb2.NextValidatorsHash, lb2.ValidatorsHash) {
		if v, err := light.EncodeValidators(lb2.ValidatorSet, lb2.Height+1); err == nil {
			c.Honest[lb2.Height+1] = &Honest{Height: lb2.Height + 1, Validators: v}
		}
	}
	return c, nil
}

// ---- synthetic chain -------------------------------------------------------

const (
	synChainID      = "verif-c19-chain"
	synChainContext = "verif-c19-chain-context"
	synBase         = int64(100)
)

var synEpoch = time.Date(2026, 1, 2, 3, 4, 5, 0, time.UTC)

type synVal struct {
	pv  cmttypes.MockPV
	val *cmttypes.Validator
}

func synValidators(tag string, n int) ([]synVal, *cmttypes.ValidatorSet) {
	var vs []synVal
	var vals []*cmttypes.Validator
	for i := 0; i < n; i++ {
		pk := cmted.GenPrivKeyFromSecret([]byte(fmt.Sprintf("verif-c19-validator-%s-%d", tag, i)))
		pv := cmttypes.NewMockPVWithParams(pk, false, false)
		v := pv.ExtractIntoValidator(int64(10 + i))
		vs = append(vs, synVal{pv: pv, val: v})
		vals = append(vals, v)
	}
	return vs, cmttypes.NewValidatorSet(vals)
}

func hb(s string) []byte {
	h := hash.NewFromBytes([]byte(s))
	return h[:]
}

func synStateRoot(h int64) hash.Hash {
	return hash.NewFromBytes([]byte(fmt.Sprintf("verif-c19-state-root-after-%d", h)))
}

// synTxs builds k transactions for height h: k-1 signed staking transfers and,
// last, the proposer-signed block metadata transaction (as abci system.go does).
func synTxs(h int64, k int) ([][]byte, []*cmtabcitypes.ResponseDeliverTx, error) {
	var txs [][]byte
	var results []*cmtabcitypes.ResponseDeliverTx
	if k == 0 {
		return nil, nil, nil
	}
	for i := 0; i < k-1; i++ {
		signer := memorySigner.NewTestSigner(fmt.Sprintf("verif-c19-user-%d-%d", h, i))
		var to stakingAPI.Address
		copy(to[:], hb(fmt.Sprintf("to-%d-%d", h, i)))
		xfer := stakingAPI.Transfer{To: to, Amount: *quantity.NewFromUint64(uint64(1000*h) + uint64(i))}
		tx := transaction.NewTransaction(uint64(h)*10+uint64(i), &transaction.Fee{Gas: transaction.Gas(1000 + i)}, stakingAPI.MethodTransfer, &xfer)
		st, err := transaction.Sign(signer, tx)
		if err != nil {
			return nil, nil, err
		}
		txs = append(txs, cbor.Marshal(st))
		r := &cmtabcitypes.ResponseDeliverTx{
			Code:      uint32(i % 2),
			Data:      cbor.Marshal(fmt.Sprintf("result-%d-%d", h, i)),
			GasWanted: int64(1000 + i),
			GasUsed:   int64(900 + i + int(h)),
			Events: []cmtabcitypes.Event{{Type: "staking", Attributes: []cmtabcitypes.EventAttribute{
				{Key: "transfer", Value: fmt.Sprintf("v-%d-%d", h, i), Index: true}}}},
		}
		if i%2 == 1 {
			r.Log = "failed"
			r.Codespace = "staking"
			r.Info = "info"
		}
		results = append(results, r)
	}
	proposer := memorySigner.NewTestSigner("verif-c19-proposer")
	evRoot := hash.NewFromBytes([]byte(fmt.Sprintf("events-%d", h)))
	meta := consensusAPI.NewBlockMetadataTx(&consensusAPI.BlockMetadata{
		StateRoot:  synStateRoot(h),
		EventsRoot: evRoot[:],
	})
	st, err := transaction.Sign(proposer, meta)
	if err != nil {
		return nil, nil, err
	}
	txs = append(txs, cbor.Marshal(st))
	results = append(results, &cmtabcitypes.ResponseDeliverTx{Code: cmtabcitypes.CodeTypeOK, Data: cbor.Marshal(nil)})
	return txs, results, nil
}

func synParams(h int64) (cmttypes.ConsensusParams, *consensusGenesis.Parameters) {
	p := *cmttypes.DefaultConsensusParams()
	p.Block.MaxBytes = 1 << 20
	p.Block.MaxGas = 5_000_000
	g := &consensusGenesis.Parameters{
		TimeoutCommit:            5 * time.Second,
		MaxTxSize:                32768,
		MaxBlockSize:             1 << 20,
		MaxBlockGas:              5_000_000,
		MaxEvidenceSize:          51200,
		StateCheckpointInterval:  10000,
		StateCheckpointNumKept:   2,
		StateCheckpointChunkSize: 8 << 20,
		GasCosts:                 transaction.Costs{consensusGenesis.GasOpTxByte: 1},
		MinGasPrice:              7,
	}
	if h >= synBase+3 {
		// Parameter change mid-chain, so "the other block's parameters" is a real alternative.
		p.Block.MaxBytes = 2 << 20
		g.MaxBlockSize = 2 << 20
		g.MinGasPrice = 9
	}
	return p, g
}

// buildSynthetic builds heights synBase..synBase+5 with real CometBFT types:
// height synBase+k carries a transaction list of length k (k = 0..4), the last
// height two (the latest trusted height).  Every hash field is computed
// by CometBFT's own code and every commit is signed by the validators.
func buildSynthetic() (*Chain, error) {
	signature.SetChainContext(synChainContext)
	valsA, setA := synValidators("A", 4)
	valsB, setB := synValidators("B", 5)
	pick := func(h int64) ([]synVal, *cmttypes.ValidatorSet) {
		if h >= synBase+3 {
			return valsB, setB
		}
		return valsA, setA
	}
	c := &Chain{Name: "synthetic", ChainID: synChainID, LBs: map[int64]*cmttypes.LightBlock{}, Honest: map[int64]*Honest{}}

	// Commit "for height synBase-1" to seed LastCommit of the first block.
	prevBlockID := cmttypes.BlockID{
		Hash:          hb("verif-c19-genesis-parent"),
		PartSetHeader: cmttypes.PartSetHeader{Total: 1, Hash: hb("verif-c19-genesis-parent-parts")},
	}
	signCommit := func(h int64, round int32, bid cmttypes.BlockID, vals []synVal, set *cmttypes.ValidatorSet, ts time.Time) (*cmttypes.Commit, error) {
		voteSet := cmttypes.NewVoteSet(synChainID, h, round, cmtproto.PrecommitType, set)
		pvs := make([]cmttypes.PrivValidator, 0, len(vals))
		// MakeCommit expects the private validators in validator-set order.
		for _, v := range set.Validators {
			for _, sv := range vals {
				if string(sv.val.Address) == string(v.Address) {
					pvs = append(pvs, sv.pv)
				}
			}
		}
		return cmttypes.MakeCommit(bid, h, round, voteSet, pvs, ts)
	}
	pv0, ps0 := pick(synBase - 1)
	lastCommit, err := signCommit(synBase-1, 0, prevBlockID, pv0, ps0, synEpoch.Add(-3*time.Second))
	if err != nil {
		return nil, fmt.Errorf("seed commit: %w", err)
	}
	var lastResults []*cmtabcitypes.ResponseDeliverTx // results of height synBase-1: none
	lens := []int{0, 1, 2, 3, 4, 2}
	for idx, k := range lens {
		h := synBase + int64(idx)
		vals, set := pick(h)
		_, nextSet := pick(h + 1)
		txs, results, err := synTxs(h, k)
		if err != nil {
			return nil, err
		}
		var ctxs []cmttypes.Tx
		for _, t := range txs {
			ctxs = append(ctxs, cmttypes.Tx(t))
		}
		blk := cmttypes.MakeBlock(h, ctxs, lastCommit, nil)
		cp, gp := synParams(h)
		blk.Header.Version = cmtversion.Consensus{Block: 11, App: 7}
		blk.Header.ChainID = synChainID
		// Nanosecond part on purpose: Block.Time is second-granular, header time is not.
		blk.Header.Time = synEpoch.Add(time.Duration(idx)*6*time.Second + time.Duration(123456789+idx)*time.Nanosecond)
		blk.Header.LastBlockID = prevBlockID
		blk.Header.ValidatorsHash = set.Hash()
		blk.Header.NextValidatorsHash = nextSet.Hash()
		blk.Header.ConsensusHash = cp.Hash()
		sr := synStateRoot(h - 1)
		blk.Header.AppHash = sr[:]
		blk.Header.LastResultsHash = cmttypes.NewResults(lastResults).Hash()
		blk.Header.ProposerAddress = set.Validators[idx%len(set.Validators)].Address
		_ = blk.Hash() // fills LastCommitHash, DataHash, EvidenceHash
		if err := blk.ValidateBasic(); err != nil {
			return nil, fmt.Errorf("synthetic block %d invalid: %w", h, err)
		}
		ps, err := blk.MakePartSet(cmttypes.BlockPartSizeBytes)
		if err != nil {
			return nil, err
		}
		bid := cmttypes.BlockID{Hash: blk.Hash(), PartSetHeader: ps.Header()}
		commit, err := signCommit(h, int32(idx%2), bid, vals, set, blk.Header.Time.Add(2*time.Second))
		if err != nil {
			return nil, fmt.Errorf("commit %d: %w", h, err)
		}
		lb := &cmttypes.LightBlock{
			SignedHeader: &cmttypes.SignedHeader{Header: &blk.Header, Commit: commit},
			ValidatorSet: set.Copy(),
		}
		if err := lb.ValidateBasic(synChainID); err != nil {
			return nil, fmt.Errorf("synthetic light block %d invalid: %w", h, err)
		}
		if err := set.VerifyCommitLight(synChainID, bid, h, commit); err != nil {
			return nil, fmt.Errorf("synthetic commit %d does not verify: %w", h, err)
		}
		// Round-trip through the wire form, as a light block from the store would be.
		clb, err := light.EncodeLightBlock(lb, h)
		if err != nil {
			return nil, err
		}
		lbd, err := light.DecodeLightBlock(clb)
		if err != nil {
			return nil, err
		}
		c.LBs[h] = lbd
		c.Heights = append(c.Heights, h)

		ablk, err := cmtAPI.NewBlock(blk)
		if err != nil {
			return nil, err
		}
		ares := cmtAPI.NewBlockResults(&cmtcoretypes.ResultBlockResults{
			Height:     h,
			TxsResults: results,
			BeginBlockEvents: []cmtabcitypes.Event{{Type: "beacon", Attributes: []cmtabcitypes.EventAttribute{
				{Key: "epoch", Value: fmt.Sprintf("%d", h/3), Index: true}}}},
			EndBlockEvents: []cmtabcitypes.Event{{Type: "registry", Attributes: []cmtabcitypes.EventAttribute{
				{Key: "end", Value: fmt.Sprintf("e-%d", h), Index: true}}}},
		})
		av, err := light.EncodeValidators(set, h)
		if err != nil {
			return nil, err
		}
		cpPB := cp.ToProto()
		cpMeta, err := cpPB.Marshal()
		if err != nil {
			return nil, err
		}
		hon := &Honest{
			Height: h, Block: ablk, Txs: txs, HasTxs: true, Results: ares, Validators: av,
			Params:        &consensusAPI.Parameters{Height: h, Parameters: *gp, Meta: cpMeta},
			GenesisParams: gp,
			StateRoot:     synStateRoot(h), HasStateRoot: true,
		}
		c.Honest[h] = hon

		prevBlockID = bid
		lastCommit = commit
		lastResults = results
	}
	// Validator set of the height after the last trusted one (GetValidators fallback path).
	nh := synBase + int64(len(lens))
	_, nset := pick(nh)
	nv, err := light.EncodeValidators(nset, nh)
	if err != nil {
		return nil, err
	}
	c.Honest[nh] = &Honest{Height: nh, Validators: nv}
	return c, nil
}
