// slmc decides property C19 (stateless node returns only header-bound data) by
// complete enumeration of field-level and byte-level alterations of provider
// responses against the real verification code of
// go/consensus/cometbft/stateless and go/consensus/cometbft/crypto/merkle.
package main

import (
	"bytes"
	"encoding/json"
	"fmt"
	"os"
	"regexp"
	"sort"
	"strings"
	"sync"
	"time"

	"verif/harness/internal/ev"
)

type artefact struct {
	Family string `json:"family"`
	Index  int    `json:"index"`
	Desc   string `json:"desc"`
}

type famStats struct {
	evals      int64
	byClass    map[string]int64
	violations int
	bySig      map[string]int
	nanos      int64
}

// panicSite gives a stable key prefix for a panic: "panic@<innermost frame of the code under test>".
func panicSite(v string) string {
	i, j := strings.LastIndex(v, "["), strings.LastIndex(v, "]")
	if i < 0 || j < i {
		return "panic@unknown"
	}
	frames := strings.Split(v[i+1:j], " <- ")
	// Function names only (no file:line, which moves with unrelated edits).
	fn := func(f string) string {
		if k := strings.Index(f, " ("); k > 0 {
			return f[:k]
		}
		return f
	}
	site := fn(frames[0])
	for _, f := range frames {
		if strings.HasPrefix(f, "stateless.") {
			if fn(f) != site {
				site = fn(f) + "/" + site
			}
			break
		}
	}
	return "panic@" + site
}

var digitsRe = regexp.MustCompile(`[0-9a-f]{6,}|[0-9]+`)

func isControl(desc string) bool {
	return desc == "unmodified" || strings.HasSuffix(desc, "honest")
}

func buildUniverse() (*Universe, error) {
	rec, err := loadRecorded()
	if err != nil {
		return nil, fmt.Errorf("recorded pair: %w", err)
	}
	syn, err := buildSynthetic()
	if err != nil {
		return nil, fmt.Errorf("synthetic chain: %w", err)
	}
	u := &Universe{Chains: []*Chain{rec, syn}}
	// Self-check of the independent reference against the trusted headers.
	for _, ch := range u.Chains {
		for _, h := range ch.Heights {
			if hon := ch.Honest[h]; hon.HasTxs && !bytes.Equal(refDataHash(hon.Txs), ch.LBs[h].DataHash) {
				return nil, fmt.Errorf("reference Merkle root disagrees with the trusted data hash of %s/%d", ch.Name, h)
			}
		}
	}
	return u, nil
}

func describe(f Family, i int, c Case) string {
	if c.Desc != "" {
		return c.Desc
	}
	return fmt.Sprintf("byte-level neighbour #%d", i)
}

func main() {
	if len(os.Args) < 2 || os.Args[1] != "C19" {
		fmt.Println("usage: slmc C19 [--tier quick|thorough] [--replay file]")
		os.Exit(2)
	}
	r := ev.Parse("fault_enumeration")
	u, err := buildUniverse()
	if err != nil {
		r.HarnessError("%v", err)
		r.Finish()
	}
	u.Thorough = r.Thorough()
	if r.Thorough() && r.Deadline.IsZero() {
		r.Deadline = r.Start.Add(13 * time.Minute)
	}
	if !r.Thorough() && r.Deadline.IsZero() {
		r.Deadline = r.Start.Add(85 * time.Second)
	}
	// Order: Core level first (small), then function level, thorough-only extensions last,
	// so that a deadline on an overloaded machine cuts the least important part.
	ff := u.familiesF()
	fams := append(u.familiesC(), ff...)
	fams = append(fams, u.familiesP()...)
	fams = append(fams, u.late...)
	if only := os.Getenv("VERIF_C19_ONLY"); only != "" {
		var keep []Family
		for _, f := range fams {
			if strings.Contains(f.Name, only) {
				keep = append(keep, f)
			}
		}
		fams = keep
	}
	strict := os.Getenv("VERIF_C19_STRICT") != ""

	if r.Replay != "" {
		v, err := ev.LoadReplay(r.Replay)
		if err != nil {
			fmt.Println("cannot load replay:", err)
			os.Exit(2)
		}
		b, _ := json.Marshal(v.Artefact)
		var a artefact
		_ = json.Unmarshal(b, &a)
		w, err := newWorker(u)
		if err != nil {
			fmt.Println("worker:", err)
			os.Exit(2)
		}
		for _, f := range fams {
			if f.Name != a.Family {
				continue
			}
			if a.Index < 0 || a.Index >= f.N {
				break
			}
			c := f.Gen(a.Index)
			res := c.Run(w)
			fmt.Printf("replay %s #%d (%s): accepted=%v class=%s err=%q\n", f.Name, a.Index, describe(f, a.Index, c), res.Accepted, res.Class, res.Err)
			if res.Violation != "" || (strict && strings.HasPrefix(res.Class, "unbound:")) {
				what := res.Violation
				if what == "" {
					what = "accepted with unbound difference " + res.Class
				}
				fmt.Printf("VIOLATION property=C19 replay=%s\n  what: %s\n", r.Replay, what)
				os.Exit(1)
			}
			fmt.Println("replay: property held")
			os.Exit(0)
		}
		fmt.Println("replay: case not found in the enumeration:", a.Family, a.Index)
		os.Exit(2)
	}

	// Work list: chunks of consecutive indexes of one family.
	type chunk struct{ f, lo, hi int }
	const chunkSize = 512
	var chunks []chunk
	var total int64
	for fi, f := range fams {
		total += int64(f.N)
		for lo := 0; lo < f.N; lo += chunkSize {
			hi := lo + chunkSize
			if hi > f.N {
				hi = f.N
			}
			chunks = append(chunks, chunk{fi, lo, hi})
		}
	}
	nw := ev.Workers()
	pool := make(chan *Worker, nw)
	for i := 0; i < nw; i++ {
		w, err := newWorker(u)
		if err != nil {
			r.HarnessError("%v", err)
			r.Finish()
		}
		pool <- w
	}

	var mu sync.Mutex
	stats := make([]famStats, len(fams))
	for i := range stats {
		stats[i].byClass = map[string]int64{}
	}
	globalSig := map[string]int{}
	distinct := map[uint64]struct{}{}
	var distinctByConstruction, controls, identicalAccepted int64
	type unb struct {
		Count   int64  `json:"count"`
		Example string `json:"example"`
		Why     string `json:"why"`
	}
	unbound := map[string]*unb{}

	ev.ParallelRange(len(chunks), r.Seed, func(ci int) {
		if r.Expired() {
			r.Cap("deadline")
			return
		}
		ck := chunks[ci]
		f := fams[ck.f]
		w := <-pool
		defer func() { pool <- w }()
		t0 := time.Now()
		local := map[string]int64{}
		var ldig []uint64
		var lcons, lctl, lident int64
		for i := ck.lo; i < ck.hi; i++ {
			c := f.Gen(i)
			res := c.Run(w)
			local[res.Class+"|"+res.Err]++
			switch {
			case isControl(c.Desc):
				lctl++
			case c.Digest == 0:
				lcons++
			default:
				ldig = append(ldig, c.Digest^digestOf([]byte(f.Name)))
			}
			if res.Class == "identical" && !isControl(c.Desc) {
				lident++
			}
			if strings.HasPrefix(res.Class, "unbound:") {
				mu.Lock()
				x := unbound[res.Class]
				if x == nil {
					x = &unb{Example: f.Name + " #" + fmt.Sprint(i) + ": " + describe(f, i, c)}
					unbound[res.Class] = x
				}
				x.Count++
				mu.Unlock()
				if strict {
					res.Violation = "accepted with unbound difference " + res.Class
				}
			}
			if res.Violation != "" {
				sig := res.Violation
				if j := strings.Index(sig, " <- "); j > 0 {
					sig = sig[:j]
				}
				if len(sig) > 160 {
					sig = sig[:160]
				}
				mu.Lock()
				stats[ck.f].violations++
				if stats[ck.f].bySig == nil {
					stats[ck.f].bySig = map[string]int{}
				}
				stats[ck.f].bySig[sig]++
				// At most 3 reported counterexamples per kind of entry point and normalised
				// signature, so that one failure class cannot crowd out another.
				parts := strings.Split(f.Name, "/")
				gk := parts[0] + "/" + parts[len(parts)-1] + ": " + digitsRe.ReplaceAllString(sig, "#")
				globalSig[gk]++
				nv := globalSig[gk]
				mu.Unlock()
				if nv <= 3 {
					key := fmt.Sprintf("%s#%d %s", f.Name, i, describe(f, i, c))
					if strings.HasPrefix(res.Class, "unbound:") {
						key = "unbound/" + res.Class + " " + key
					}
					if res.Class == "panic" {
						key = panicSite(res.Violation) + " " + key
					}
					if res.Key != "" {
						key = res.Key + " " + key
					}
					r.Violate(ev.Violation{Engine: "slmc", Key: printable(key),
						What:     printable(fmt.Sprintf("%s, mutant #%d (%s): %s", f.Name, i, describe(f, i, c), res.Violation)),
						Artefact: artefact{Family: f.Name, Index: i, Desc: describe(f, i, c)}})
				}
			}
			if i == ck.lo && (ci%97 == 0) {
				r.Sample(map[string]any{"family": f.Name, "index": i, "mutant": describe(f, i, c), "accepted": res.Accepted, "class": res.Class, "error": res.Err}, 8)
			}
		}
		mu.Lock()
		st := &stats[ck.f]
		st.nanos += int64(time.Since(t0))
		for k, v := range local {
			st.byClass[k] += v
			st.evals += v
		}
		for _, d := range ldig {
			distinct[d] = struct{}{}
		}
		distinctByConstruction += lcons
		controls += lctl
		identicalAccepted += lident
		mu.Unlock()
	})

	// Report.
	var evals, rejectedN, acceptedN, violating int64
	kind := map[string]int64{}
	layer := map[string]int64{}
	for fi, f := range fams {
		st := stats[fi]
		evals += st.evals
		violating += int64(st.violations)
		parts := strings.Split(f.Name, "/")
		layer[parts[0]] += st.evals
		k := parts[0] + ":" + parts[len(parts)-2] + "/" + parts[len(parts)-1]
		if parts[0] == "F" && len(parts) >= 5 {
			k = "F:" + strings.Join(parts[3:], "/")
			if parts[3] == "proof" && len(parts) == 6 {
				k = "F:proof/*/" + parts[5]
			}
		}
		if parts[0] == "C" {
			k = "C:" + parts[len(parts)-1]
		}
		kind[k] += st.evals
		for c, n := range st.byClass {
			cls := strings.SplitN(c, "|", 2)
			if cls[0] == "rejected" || cls[0] == "decoder-error" {
				rejectedN += n
			} else {
				acceptedN += n
			}
			r.Outcome(k + " " + c)
		}
	}
	r.Set("evaluations", evals)
	r.Set("enumerated", total)
	r.Set("distinct_nontrivial", int64(len(distinct))+distinctByConstruction)
	r.Set("control_cases", controls)
	r.Set("mutants_rejected", rejectedN)
	r.Set("mutants_or_controls_accepted", acceptedN)
	r.Set("mutants_accepted_semantically_identical", identicalAccepted)
	r.Set("oracle_failures_incl_known_findings", violating)
	r.Set("families", int64(len(fams)))
	r.Set("evaluations_function_level", layer["F"])
	r.Set("evaluations_core_level", layer["C"])
	r.Set("evaluations_by_kind", kind)
	var unbTotal int64
	for _, x := range unbound {
		unbTotal += x.Count
	}
	r.Set("mutants_accepted_unbound_fields", unbTotal)
	ub := map[string]any{}
	for k, x := range unbound {
		for c := range unboundClasses {
			if strings.Contains(k, c) {
				x.Why = unboundClasses[c]
			}
		}
		ub[k] = x
	}
	r.Set("accepted_unbound", ub)
	tierRule := "quick tier: byte level = every single-bit flip, every proper prefix and two one-byte extensions, except the 48 kB recorded results meta (one bit of every byte, bit = position mod 8, plus all prefixes)"
	if r.Thorough() {
		tierRule = "thorough tier: byte level = every single-bit flip, every proper prefix, two one-byte extensions of everything, and additionally every other value of every byte (247 more per byte) of every artefact except the recorded results meta, transaction list and validator set"
	}
	r.Set("rule", "universe: the recorded pair (heights 25300000/25300001) and a synthesised validator-signed chain of 6 heights with transaction lists of length 0,1,2,3,4,2 built with CometBFT's own types; "+
		"for every response of every height: every single-field alteration from a fixed alternative set (+1,-1,0,extremes, the value of every other block of both chains, truncated, extended, dropped/duplicated/swapped/permuted list entries, hand-made CBOR re-encodings), "+
		"byte-level neighbourhoods of Block.Meta, BlockResults.Meta, Validators.Meta, Parameters.Meta, every transaction, every raw proof and every signed transaction under its proof, every split of a transaction in two, every (proof, transaction, light block) triple, every wrong results root; "+
		tierRule+"; "+
		"layer F calls the package-private verify functions, layer C drives the real Core over a real light client with a trusted store and a lying provider (field-level mutants, height shifts, other-height substitution, untrusted heights, lying latest height), each followed by an honest call on the same Core. "+
		"distinct = byte-level neighbours (distinct by construction) + field-level mutants deduplicated by a digest of the mutated response per family; non-trivial = not one of the unmodified control cases")
	r.Assume(
		"CometBFT light-client verification itself is trusted: trusted light blocks are placed in the light client's store (the recorded ones cannot be re-verified without their chain)",
		"the light query factory (state proven against the verified state root) is replaced by a stub answering the honest consensus parameters (state proofs are property C04)",
		"one altered response per call; the provider may in addition answer for a different height",
		"accepted differences confined to fields no CometBFT header hash commits to are counted (accepted_unbound), not reported as violations: "+strings.Join(sortedKeys(unboundClasses), ", "),
		"block results: bound for heights below the latest trusted one; at the latest trusted height only Height is checked (property text)",
		"SHA-256 second-preimage resistance (an accepted proof/list is compared with the honest one, not searched for collisions)",
	)
	keys := make([]string, 0, len(unbound))
	for k := range unbound {
		keys = append(keys, k)
	}
	sort.Strings(keys)
	for _, k := range keys {
		fmt.Printf("NOTE accepted although different (not header-bound by design): %s x%d e.g. %s\n", k, unbound[k].Count, unbound[k].Example)
	}
	sigs := map[string]int{}
	for fi := range fams {
		for sg, n := range stats[fi].bySig {
			parts := strings.Split(fams[fi].Name, "/")
			sigs[parts[0]+"/"+parts[1]+"/../"+parts[len(parts)-1]+": "+sg] += n
		}
	}
	var sk []string
	for k := range sigs {
		sk = append(sk, k)
	}
	sort.Strings(sk)
	for _, k := range sk {
		fmt.Printf("VIOLATING x%d %s\n", sigs[k], k)
	}
	if os.Getenv("VERIF_C19_VERBOSE") != "" {
		for fi, f := range fams {
			fmt.Printf("%-60s n=%d cpu=%.1fs %v\n", f.Name, f.N, float64(stats[fi].nanos)/1e9, stats[fi].byClass)
		}
	}
	r.Finish()
}

func sortedKeys(m map[string]string) []string {
	var ks []string
	for k := range m {
		ks = append(ks, k)
	}
	sort.Strings(ks)
	return ks
}
