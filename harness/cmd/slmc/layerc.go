package main

// Layer C: the real stateless.Core with a real light.Client (CometBFT light
// client over a pre-populated trusted store) and a fake untrusted provider that
// answers one request with a mutant.  Oracle: if an API call returns without
// error, the value is the honest value OF THE REQUESTED HEIGHT (modulo the
// unbound classes).  A fresh Core per case; after the mutant call the same Core
// must still answer the honest provider correctly (no poisoned cache).

import (
	"bytes"
	"context"
	"fmt"
	"time"

	cmtdb "github.com/cometbft/cometbft-db"
	cmtmerkle "github.com/cometbft/cometbft/crypto/merkle"
	cmtlight "github.com/cometbft/cometbft/light"
	cmtlightprovider "github.com/cometbft/cometbft/light/provider"
	cmtlightdb "github.com/cometbft/cometbft/light/store/db"
	cmttypes "github.com/cometbft/cometbft/types"

	"github.com/oasisprotocol/oasis-core/go/common"
	"github.com/oasisprotocol/oasis-core/go/common/cbor"
	"github.com/oasisprotocol/oasis-core/go/common/crypto/hash"
	consensusAPI "github.com/oasisprotocol/oasis-core/go/consensus/api"
	"github.com/oasisprotocol/oasis-core/go/consensus/api/transaction"
	cmtAPI "github.com/oasisprotocol/oasis-core/go/consensus/cometbft/api"
	"github.com/oasisprotocol/oasis-core/go/consensus/cometbft/light"
	"github.com/oasisprotocol/oasis-core/go/consensus/cometbft/stateless"
	mkvsNode "github.com/oasisprotocol/oasis-core/go/storage/mkvs/node"
)

// deadLightProvider is the light client's view of the network: it serves nothing,
// so only heights in the trusted store verify.
type deadLightProvider struct{ chainID string }

func (p *deadLightProvider) ChainID() string { return p.chainID }
func (p *deadLightProvider) LightBlock(context.Context, int64) (*cmttypes.LightBlock, error) {
	return nil, cmtlightprovider.ErrLightBlockNotFound
}
func (p *deadLightProvider) ReportEvidence(context.Context, cmttypes.Evidence) error { return nil }
func (p *deadLightProvider) LightBlockWithPeerID(context.Context, int64) (*cmttypes.LightBlock, string, error) {
	return nil, "", cmtlightprovider.ErrLightBlockNotFound
}
func (p *deadLightProvider) MalevolentProvider(string) {}

func newLightClient(ch *Chain) (*light.Client, error) {
	store := cmtlightdb.New(cmtdb.NewMemDB(), "")
	for _, h := range ch.Heights {
		if err := store.SaveLightBlock(ch.LBs[h]); err != nil {
			return nil, err
		}
	}
	latest := ch.LBs[ch.Latest()]
	trust := cmtlight.TrustOptions{Period: 1000000 * time.Hour, Height: latest.Height, Hash: latest.Hash()}
	return light.VerifNewClient(ch.ChainID, trust, &deadLightProvider{ch.ChainID},
		[]cmtlightprovider.Provider{&deadLightProvider{ch.ChainID}}, store)
}

// fakeProvider is the untrusted remote node.
type fakeProvider struct {
	consensusAPI.Backend // unused methods: nil (never called by the paths driven here)
	ch                   *Chain
	claimLatest          int64
	oBlock               func(h int64) (*consensusAPI.Block, error)
	oTxs                 func(h int64) ([][]byte, error)
	oResults             func(h int64) (*consensusAPI.BlockResults, error)
	oValidators          func(h int64) (*consensusAPI.Validators, error)
	oParams              func(h int64) (*consensusAPI.Parameters, error)
	oProof               func(tx *transaction.SignedTransaction) (*transaction.Proof, error)
}

func (p *fakeProvider) honest(h int64) *Honest { return p.ch.Honest[h] }

func (p *fakeProvider) GetLatestHeight(context.Context) (int64, error) { return p.claimLatest, nil }

func (p *fakeProvider) GetBlock(_ context.Context, h int64) (*consensusAPI.Block, error) {
	if p.oBlock != nil {
		return p.oBlock(h)
	}
	if hon := p.honest(h); hon != nil && hon.Block != nil {
		return copyBlock(hon.Block), nil
	}
	return nil, consensusAPI.ErrVersionNotFound
}

func (p *fakeProvider) GetTransactions(_ context.Context, h int64) ([][]byte, error) {
	if p.oTxs != nil {
		return p.oTxs(h)
	}
	if hon := p.honest(h); hon != nil && hon.HasTxs {
		return copyTxs(hon.Txs), nil
	}
	return nil, consensusAPI.ErrVersionNotFound
}

func (p *fakeProvider) GetBlockResults(_ context.Context, h int64) (*consensusAPI.BlockResults, error) {
	if p.oResults != nil {
		return p.oResults(h)
	}
	if hon := p.honest(h); hon != nil && hon.Results != nil {
		r := *hon.Results
		return &r, nil
	}
	return nil, consensusAPI.ErrVersionNotFound
}

func (p *fakeProvider) GetValidators(_ context.Context, h int64) (*consensusAPI.Validators, error) {
	if p.oValidators != nil {
		return p.oValidators(h)
	}
	if hon := p.honest(h); hon != nil && hon.Validators != nil {
		v := *hon.Validators
		return &v, nil
	}
	return nil, consensusAPI.ErrVersionNotFound
}

func (p *fakeProvider) GetParameters(_ context.Context, h int64) (*consensusAPI.Parameters, error) {
	if p.oParams != nil {
		return p.oParams(h)
	}
	if hon := p.honest(h); hon != nil && hon.Params != nil {
		v := *hon.Params
		return &v, nil
	}
	return nil, consensusAPI.ErrVersionNotFound
}

func (p *fakeProvider) SubmitTxWithProof(_ context.Context, tx *transaction.SignedTransaction) (*transaction.Proof, error) {
	if p.oProof != nil {
		return p.oProof(tx)
	}
	raw := cbor.Marshal(tx)
	for _, h := range p.ch.Heights {
		hon := p.ch.Honest[h]
		if !hon.HasTxs {
			continue
		}
		for i, t := range hon.Txs {
			if bytes.Equal(t, raw) {
				return &transaction.Proof{Height: h, RawProof: stateless.VerifTransactionsWithProofs(hon.Txs).Proofs[i]}, nil
			}
		}
	}
	return nil, fmt.Errorf("transaction not included")
}

func (w *Worker) newCore(ch *Chain, p *fakeProvider) *stateless.Core {
	c := stateless.NewCore(p, w.clients[ch.Name], stateless.Config{ChainContext: synChainContext})
	c.SetQueriers(nil, &stubQueryFactory{ch: ch}, nil)
	return c
}

// cCase runs `call` on a fresh Core with the mutating provider, then again with
// an honest provider on the same Core.
type cCall func(c *stateless.Core) Result

func (w *Worker) runC(ch *Chain, mutate func(p *fakeProvider), call cCall, honestMustAccept bool) Result {
	p := &fakeProvider{ch: ch, claimLatest: ch.Latest()}
	if mutate != nil {
		mutate(p)
	}
	core := w.newCore(ch, p)
	r := call(core)
	if r.Violation != "" {
		return r
	}
	// Same Core, provider honest again.
	*p = fakeProvider{ch: ch, claimLatest: ch.Latest()}
	r2 := call(core)
	if r2.Violation != "" {
		r2.Violation = "after the mutant response, honest response: " + r2.Violation
		return r2
	}
	if honestMustAccept && !r2.Accepted {
		return Result{Class: "violation", Violation: "after the mutant response the honest response is rejected: " + r2.Err}
	}
	if honestMustAccept && r2.Class != "identical" {
		return Result{Class: "violation", Violation: "after the mutant response the honest response yields a different value: " + r2.Class}
	}
	return r
}

func cGetBlock(ch *Chain, h int64) cCall {
	return func(c *stateless.Core) Result {
		var blk *consensusAPI.Block
		err, pan := guard(func() error { var e error; blk, e = c.GetBlock(context.Background(), h); return e })
		if pan != "" {
			return panicked(pan)
		}
		if err != nil {
			return rejected(err)
		}
		hon := ch.Honest[h]
		if hon == nil || hon.Block == nil || ch.LBs[h] == nil {
			return Result{Accepted: true, Class: "violation", Violation: fmt.Sprintf("GetBlock(%d) answered for a height without a trusted header", h)}
		}
		return accepted(diffBlock(hon.Block, blk))
	}
}

func cGetTransactions(ch *Chain, h int64, withProofs bool) cCall {
	return func(c *stateless.Core) Result {
		var txs [][]byte
		var proofs [][]byte
		err, pan := guard(func() error {
			if withProofs {
				twp, e := c.GetTransactionsWithProofs(context.Background(), h)
				if e == nil {
					txs, proofs = twp.Transactions, twp.Proofs
				}
				return e
			}
			var e error
			txs, e = c.GetTransactions(context.Background(), h)
			return e
		})
		if pan != "" {
			return panicked(pan)
		}
		if err != nil {
			return rejected(err)
		}
		hon := ch.Honest[h]
		if hon == nil || !hon.HasTxs || ch.LBs[h] == nil {
			return Result{Accepted: true, Class: "violation", Violation: fmt.Sprintf("GetTransactions(%d) answered for a height without trusted data", h)}
		}
		if d := diffTxs(hon.Txs, txs); len(d) > 0 {
			return accepted(d)
		}
		if withProofs {
			if len(proofs) != len(txs) {
				return Result{Accepted: true, Class: "violation", Violation: "proof count differs from transaction count"}
			}
			for i := range txs {
				var p cmtmerkle.Proof
				if cbor.Unmarshal(proofs[i], &p) != nil || !refVerify(ch.LBs[h].DataHash, p.Total, p.Index, p.LeafHash, p.Aunts, refTxLeaves(txs[i : i+1])[0]) || p.Index != int64(i) {
					return Result{Accepted: true, Class: "violation", Violation: fmt.Sprintf("returned proof %d does not prove transaction %d against the trusted data hash", i, i)}
				}
			}
		}
		return accepted(nil)
	}
}

func cGetBlockResults(ch *Chain, h int64) cCall {
	return func(c *stateless.Core) Result {
		var res *consensusAPI.BlockResults
		err, pan := guard(func() error { var e error; res, e = c.GetBlockResults(context.Background(), h); return e })
		if pan != "" {
			return panicked(pan)
		}
		if err != nil {
			return rejected(err)
		}
		hon := ch.Honest[h]
		if hon == nil || hon.Results == nil || ch.LBs[h] == nil {
			return Result{Accepted: true, Class: "violation", Violation: fmt.Sprintf("GetBlockResults(%d) answered for a height without a trusted header", h)}
		}
		d := diffResults(hon.Results, res)
		if h >= ch.Latest() {
			// Property: bound below the latest trusted height; at the latest only the height.
			if res.Height != h {
				return Result{Accepted: true, Class: "violation", Violation: "results of another height returned for the latest height"}
			}
			if len(d) > 0 {
				return Result{Accepted: true, Class: "unbound:[results.latest-height]"}
			}
			return accepted(nil)
		}
		return accepted(d)
	}
}

func cGetTransactionsWithResults(ch *Chain, h int64) cCall {
	return func(c *stateless.Core) Result {
		var twr *consensusAPI.TransactionsWithResults
		err, pan := guard(func() error {
			var e error
			twr, e = c.GetTransactionsWithResults(context.Background(), h)
			return e
		})
		if pan != "" {
			return panicked(pan)
		}
		if err != nil {
			return rejected(err)
		}
		hon := ch.Honest[h]
		if hon == nil || !hon.HasTxs || hon.Results == nil {
			return Result{Accepted: true, Class: "violation", Violation: "answered for a height without trusted data"}
		}
		if d := diffTxs(hon.Txs, twr.Transactions); len(d) > 0 {
			return accepted(d)
		}
		var meta cmtAPI.BlockResultsMeta
		_ = cbor.Unmarshal(hon.Results.Meta, &meta)
		var d []string
		if len(twr.Results) != len(meta.TxsResults) {
			d = append(d, "results.tx.count")
		} else {
			for i, r := range twr.Results {
				if r.Error.Code != meta.TxsResults[i].Code {
					d = append(d, "results.tx.code")
				}
				if r.GasUsed != uint64(meta.TxsResults[i].GasUsed) {
					d = append(d, "results.tx.gas_used")
				}
				if r.Error.Module != meta.TxsResults[i].Codespace {
					d = append(d, "results.tx.codespace")
				}
				if r.Error.Message != meta.TxsResults[i].Log {
					d = append(d, "results.tx.log")
				}
			}
		}
		d = uniq(d)
		if h >= ch.Latest() && len(d) > 0 {
			return Result{Accepted: true, Class: "unbound:[results.latest-height]"}
		}
		return accepted(d)
	}
}

func cGetValidators(ch *Chain, h int64) cCall {
	return func(c *stateless.Core) Result {
		var v *consensusAPI.Validators
		err, pan := guard(func() error { var e error; v, e = c.GetValidators(context.Background(), h); return e })
		if pan != "" {
			return panicked(pan)
		}
		if err != nil {
			return rejected(err)
		}
		hon := ch.Honest[h]
		if hon == nil || hon.Validators == nil {
			return Result{Accepted: true, Class: "violation", Violation: fmt.Sprintf("GetValidators(%d) answered for a height without trusted data", h)}
		}
		return accepted(diffValidators(hon.Validators, v))
	}
}

func cGetParameters(ch *Chain, h int64) cCall {
	return func(c *stateless.Core) Result {
		var v *consensusAPI.Parameters
		err, pan := guard(func() error { var e error; v, e = c.GetParameters(context.Background(), h); return e })
		if pan != "" {
			return panicked(pan)
		}
		if err != nil {
			return rejected(err)
		}
		hon := ch.Honest[h]
		if hon == nil || hon.Params == nil {
			return Result{Accepted: true, Class: "violation", Violation: fmt.Sprintf("GetParameters(%d) answered for a height without trusted data", h)}
		}
		return accepted(diffParams(hon.Params, v))
	}
}

// cStateRoot: request is `req` (0 = latest); the height the answer must be about is `about`.
func cStateRoot(ch *Chain, req int64, about func(p int64) int64) cCall {
	return func(c *stateless.Core) Result {
		var root mkvsNode.Root
		err, pan := guard(func() error { var e error; root, e = c.StateRoot(context.Background(), req); return e })
		if pan != "" {
			return panicked(pan)
		}
		if err != nil {
			return rejected(err)
		}
		h := int64(root.Version)
		if req != consensusAPI.HeightLatest && h != req {
			return Result{Accepted: true, Class: "violation", Violation: fmt.Sprintf("StateRoot(%d) returned a root of version %d", req, h)}
		}
		// The root after height h is bound by the app hash of the trusted header h+1, or, for the
		// newest trusted height, by the metadata transaction in the (data-hash bound) list of h.
		var want hash.Hash
		switch {
		case ch.LBs[h+1] != nil:
			_ = want.UnmarshalBinary(ch.LBs[h+1].AppHash)
		case ch.LBs[h] != nil && ch.Honest[h] != nil && ch.Honest[h].HasStateRoot:
			want = ch.Honest[h].StateRoot
		default:
			return Result{Accepted: true, Class: "violation", Violation: fmt.Sprintf("StateRoot(%d) answered (version %d) without a trusted header binding it", req, h)}
		}
		if root.Hash != want || root.Type != mkvsNode.RootTypeState || root.Namespace != (common.Namespace{}) {
			return Result{Accepted: true, Class: "violation", Violation: fmt.Sprintf("StateRoot(%d) = %s, true root after height %d is %s", req, root.Hash, h, want)}
		}
		return accepted(nil)
	}
}

func cSubmitTxWithProof(ch *Chain, h int64, i int) cCall {
	hon := ch.Honest[h]
	var st transaction.SignedTransaction
	_ = cbor.Unmarshal(hon.Txs[i], &st)
	return func(c *stateless.Core) Result {
		var proof *transaction.Proof
		err, pan := guard(func() error { var e error; proof, e = c.SubmitTxWithProof(context.Background(), &st); return e })
		if pan != "" {
			return panicked(pan)
		}
		if err != nil {
			return rejected(err)
		}
		// The returned proof claims inclusion of st at proof.Height.
		if proof.Height == consensusAPI.HeightLatest && h == ch.Latest() {
			return Result{Accepted: true, Class: "violation", Key: "height-alias@SubmitTxWithProof",
				Violation: fmt.Sprintf("provider's proof with Height=0 (the 'latest' alias) is verified against the latest trusted block %d and returned to the caller with Height=0", h)}
		}
		lb := ch.LBs[proof.Height]
		if lb == nil {
			return Result{Accepted: true, Class: "violation", Violation: fmt.Sprintf("proof for untrusted height %d returned", proof.Height)}
		}
		// Same oracle as the function level, on the value handed to the caller.
		r := evalProof(ch, proof, &st, lb)
		if !r.Accepted && r.Violation == "" {
			return Result{Accepted: true, Class: "violation", Violation: "Core returned a proof that verifyTransactionProof rejects: " + r.Err}
		}
		return r
	}
}

func constErr[T any](err error) func(int64) (T, error) {
	return func(int64) (T, error) { var z T; return z, err }
}

func (u *Universe) familiesC() []Family {
	var fams []Family
	provErr := fmt.Errorf("provider: unavailable")
	for _, ch := range u.Chains {
		ch := ch
		latest := ch.Latest()
		pfx := "C/" + ch.Name + "/"
		// Heights requested: every trusted height, plus untrusted ones.
		untrusted := []int64{latest + 1, latest + 2, ch.Heights[0] - 1, 1, -1, 1 << 40}
		add := func(name string, cases []Case) {
			if len(cases) > 0 {
				fams = append(fams, listFamily(pfx+name, cases))
			}
		}
		for _, h := range ch.Heights {
			h := h
			hon := ch.Honest[h]
			// --- GetBlock
			if hon.Block != nil {
				var cs []Case
				cs = append(cs, Case{Desc: "honest", Digest: 1, Run: func(w *Worker) Result {
					r := w.runC(ch, nil, cGetBlock(ch, h), true)
					if !r.Accepted && r.Violation == "" {
						r.Class, r.Violation = "violation", "honest block rejected: "+r.Err
					}
					return r
				}})
				cs = append(cs, Case{Desc: "provider error", Digest: 2, Run: func(w *Worker) Result {
					return w.runC(ch, func(p *fakeProvider) { p.oBlock = constErr[*consensusAPI.Block](provErr) }, cGetBlock(ch, h), true)
				}})
				for _, m := range u.blockFieldMutants(ch, h) {
					m := m
					tb, _ := m.Val.Time.MarshalBinary()
					cs = append(cs, Case{Desc: m.Desc, Digest: digestOf(cbor.Marshal(m.Val.Height), m.Val.Hash[:], tb, cbor.Marshal(m.Val.StateRoot), cbor.Marshal(m.Val.Size), m.Val.Meta), Run: func(w *Worker) Result {
						return w.runC(ch, func(p *fakeProvider) {
							p.oBlock = func(int64) (*consensusAPI.Block, error) { return copyBlock(m.Val), nil }
						}, cGetBlock(ch, h), true)
					}})
				}
				add(fmt.Sprintf("%d/GetBlock", h), cs)
			}
			// --- GetTransactions / WithProofs
			if hon.HasTxs {
				var cs []Case
				for _, wp := range []bool{false, true} {
					wp := wp
					tag := map[bool]string{false: "", true: "WithProofs: "}[wp]
					cs = append(cs, Case{Desc: tag + "honest", Digest: digestOf([]byte(tag)), Run: func(w *Worker) Result {
						r := w.runC(ch, nil, cGetTransactions(ch, h, wp), true)
						if !r.Accepted && r.Violation == "" {
							r.Class, r.Violation = "violation", "honest transactions rejected: "+r.Err
						}
						return r
					}})
				}
				cs = append(cs, Case{Desc: "provider error", Digest: 2, Run: func(w *Worker) Result {
					return w.runC(ch, func(p *fakeProvider) { p.oTxs = constErr[[][]byte](provErr) }, cGetTransactions(ch, h, false), true)
				}})
				for _, m := range u.txsFieldMutants(ch, h) {
					m := m
					cs = append(cs, Case{Desc: m.Desc, Digest: digestOf(m.Val...) ^ uint64(len(m.Val)), Run: func(w *Worker) Result {
						return w.runC(ch, func(p *fakeProvider) {
							p.oTxs = func(int64) ([][]byte, error) { return copyTxs(m.Val), nil }
						}, cGetTransactions(ch, h, false), true)
					}})
				}
				add(fmt.Sprintf("%d/GetTransactions", h), cs)
			}
			// --- GetBlockResults, GetTransactionsWithResults
			if hon.Results != nil {
				var cs []Case
				cs = append(cs, Case{Desc: "honest", Digest: 1, Run: func(w *Worker) Result {
					r := w.runC(ch, nil, cGetBlockResults(ch, h), true)
					if !r.Accepted && r.Violation == "" {
						r.Class, r.Violation = "violation", "honest results rejected: "+r.Err
					}
					return r
				}})
				cs = append(cs, Case{Desc: "provider error", Digest: 2, Run: func(w *Worker) Result {
					return w.runC(ch, func(p *fakeProvider) { p.oResults = constErr[*consensusAPI.BlockResults](provErr) }, cGetBlockResults(ch, h), true)
				}})
				var cs2 []Case
				cs2 = append(cs2, Case{Desc: "honest", Digest: 1, Run: func(w *Worker) Result {
					r := w.runC(ch, nil, cGetTransactionsWithResults(ch, h), true)
					if !r.Accepted && r.Violation == "" {
						r.Class, r.Violation = "violation", "honest transactions with results rejected: "+r.Err
					}
					return r
				}})
				for _, m := range u.resultsFieldMutants(ch, h) {
					m := m
					dg := digestOf(cbor.Marshal(m.Val.Height), m.Val.Meta)
					mut := func(p *fakeProvider) {
						p.oResults = func(int64) (*consensusAPI.BlockResults, error) { r := *m.Val; return &r, nil }
					}
					cs = append(cs, Case{Desc: m.Desc, Digest: dg, Run: func(w *Worker) Result { return w.runC(ch, mut, cGetBlockResults(ch, h), true) }})
					if hon.HasTxs {
						cs2 = append(cs2, Case{Desc: "results: " + m.Desc, Digest: dg, Run: func(w *Worker) Result {
							return w.runC(ch, mut, cGetTransactionsWithResults(ch, h), true)
						}})
					}
				}
				if hon.HasTxs {
					for _, m := range u.txsFieldMutants(ch, h) {
						m := m
						cs2 = append(cs2, Case{Desc: "txs: " + m.Desc, Digest: digestOf(m.Val...) ^ uint64(len(m.Val)) ^ 0x55, Run: func(w *Worker) Result {
							return w.runC(ch, func(p *fakeProvider) {
								p.oTxs = func(int64) ([][]byte, error) { return copyTxs(m.Val), nil }
							}, cGetTransactionsWithResults(ch, h), true)
						}})
					}
				}
				add(fmt.Sprintf("%d/GetBlockResults", h), cs)
				if hon.HasTxs {
					add(fmt.Sprintf("%d/GetTransactionsWithResults", h), cs2)
				}
				// The provider's claim about the latest height is untrusted: understating it must not
				// switch off the binding of results to the verified header of the next height.
				if ch.LBs[h+1] != nil {
					var cs3 []Case
					for _, cl := range []int64{h, h - 1, ch.Heights[0]} {
						cl := cl
						for _, m := range u.resultsFieldMutants(ch, h) {
							m := m
							cs3 = append(cs3, Case{Desc: fmt.Sprintf("provider claims latest=%d; %s", cl, m.Desc), Digest: digestOf(cbor.Marshal(m.Val.Height), m.Val.Meta, cbor.Marshal(cl)), Run: func(w *Worker) Result {
								return w.runC(ch, func(p *fakeProvider) {
									p.claimLatest = cl
									p.oResults = func(int64) (*consensusAPI.BlockResults, error) { r := *m.Val; return &r, nil }
								}, cGetBlockResults(ch, h), true)
							}})
						}
					}
					add(fmt.Sprintf("%d/GetBlockResults-understated-latest", h), cs3)
				}
			}
			// --- GetValidators at a trusted height: served from the light block, the provider is not consulted.
			if hon.Validators != nil {
				var cs []Case
				cs = append(cs, Case{Desc: "trusted height, lying provider ignored", Digest: 1, Run: func(w *Worker) Result {
					r := w.runC(ch, func(p *fakeProvider) {
						p.oValidators = func(int64) (*consensusAPI.Validators, error) {
							return &consensusAPI.Validators{Height: h, Meta: []byte{1, 2, 3}}, nil
						}
					}, cGetValidators(ch, h), true)
					if !r.Accepted && r.Violation == "" {
						r.Class, r.Violation = "violation", "validators of a trusted height not served: "+r.Err
					}
					return r
				}})
				add(fmt.Sprintf("%d/GetValidators", h), cs)
			}
			// --- GetParameters
			if hon.Params != nil {
				var cs []Case
				cs = append(cs, Case{Desc: "honest", Digest: 1, Run: func(w *Worker) Result {
					r := w.runC(ch, nil, cGetParameters(ch, h), true)
					if !r.Accepted && r.Violation == "" {
						r.Class, r.Violation = "violation", "honest parameters rejected: "+r.Err
					}
					return r
				}})
				for _, m := range u.paramsFieldMutants(ch, h) {
					m := m
					cs = append(cs, Case{Desc: m.Desc, Digest: digestOf(cbor.Marshal(m.Val.Height), cbor.Marshal(m.Val.Parameters), m.Val.Meta), Run: func(w *Worker) Result {
						return w.runC(ch, func(p *fakeProvider) {
							p.oParams = func(int64) (*consensusAPI.Parameters, error) { v := *m.Val; return &v, nil }
						}, cGetParameters(ch, h), true)
					}})
				}
				add(fmt.Sprintf("%d/GetParameters", h), cs)
			}
			// --- StateRoot
			if hon.HasStateRoot {
				var cs []Case
				cs = append(cs, Case{Desc: "honest", Digest: 1, Run: func(w *Worker) Result {
					r := w.runC(ch, nil, cStateRoot(ch, h, nil), true)
					if !r.Accepted && r.Violation == "" {
						r.Class, r.Violation = "violation", "state root of a trusted height not served: "+r.Err
					}
					return r
				}})
				if hon.HasTxs {
					for _, m := range u.txsFieldMutants(ch, h) {
						m := m
						cs = append(cs, Case{Desc: "txs: " + m.Desc, Digest: digestOf(m.Val...) ^ uint64(len(m.Val)), Run: func(w *Worker) Result {
							return w.runC(ch, func(p *fakeProvider) {
								p.oTxs = func(int64) ([][]byte, error) { return copyTxs(m.Val), nil }
							}, cStateRoot(ch, h, nil), true)
						}})
					}
				}
				add(fmt.Sprintf("%d/StateRoot", h), cs)
			}
			// --- SubmitTxWithProof
			if hon.HasTxs && len(hon.Txs) > 0 {
				var cs []Case
				proofs := stateless.VerifTransactionsWithProofs(hon.Txs).Proofs
				leaves := refTxLeaves(hon.Txs)
				for i := range leaves {
					leaves[i] = refLeaf(leaves[i])
				}
				for i := range hon.Txs {
					i := i
					cs = append(cs, Case{Desc: fmt.Sprintf("tx %d honest", i), Digest: digestOf([]byte{byte(i), 1}), Run: func(w *Worker) Result {
						r := w.runC(ch, nil, cSubmitTxWithProof(ch, h, i), true)
						if !r.Accepted && r.Violation == "" {
							r.Class, r.Violation = "violation", "honest proof rejected: "+r.Err
						}
						return r
					}})
					for _, x := range append(append(int64Alternatives(h), ch.otherHeights(h)...), untrusted...) {
						x := x
						cs = append(cs, Case{Desc: fmt.Sprintf("tx %d proof Height=%d", i, x), Digest: digestOf(proofs[i], cbor.Marshal(x)), Run: func(w *Worker) Result {
							return w.runC(ch, func(p *fakeProvider) {
								p.oProof = func(*transaction.SignedTransaction) (*transaction.Proof, error) {
									return &transaction.Proof{Height: x, RawProof: proofs[i]}, nil
								}
							}, cSubmitTxWithProof(ch, h, i), true)
						}})
					}
					for j := range hon.Txs {
						j := j
						if j == i || bytes.Equal(hon.Txs[i], hon.Txs[j]) {
							continue
						}
						cs = append(cs, Case{Desc: fmt.Sprintf("tx %d answered with proof of tx %d", i, j), Digest: digestOf(proofs[j], []byte{byte(i)}), Run: func(w *Worker) Result {
							return w.runC(ch, func(p *fakeProvider) {
								p.oProof = func(*transaction.SignedTransaction) (*transaction.Proof, error) {
									return &transaction.Proof{Height: h, RawProof: proofs[j]}, nil
								}
							}, cSubmitTxWithProof(ch, h, i), true)
						}})
					}
					for _, m := range proofFieldMutants(proofs[i], leaves) {
						m := m
						cs = append(cs, Case{Desc: fmt.Sprintf("tx %d proof: %s", i, m.Desc), Digest: digestOf(m.Val, []byte{byte(i)}), Run: func(w *Worker) Result {
							return w.runC(ch, func(p *fakeProvider) {
								p.oProof = func(*transaction.SignedTransaction) (*transaction.Proof, error) {
									return &transaction.Proof{Height: h, RawProof: m.Val}, nil
								}
							}, cSubmitTxWithProof(ch, h, i), true)
						}})
					}
				}
				add(fmt.Sprintf("%d/SubmitTxWithProof", h), cs)
			}
		}
		// --- requests for heights the light client cannot verify: nothing may be served, whatever the provider says.
		{
			var cs []Case
			donor := ch.Honest[ch.Heights[0]]
			for _, x := range untrusted {
				x := x
				serve := func(p *fakeProvider) {
					p.oBlock = func(int64) (*consensusAPI.Block, error) {
						if donor.Block == nil {
							return nil, provErr
						}
						b := copyBlock(donor.Block)
						b.Height = x
						return b, nil
					}
					p.oTxs = func(int64) ([][]byte, error) { return copyTxs(donor.Txs), nil }
					p.oResults = func(int64) (*consensusAPI.BlockResults, error) {
						if donor.Results == nil {
							return nil, provErr
						}
						return &consensusAPI.BlockResults{Height: x, Meta: donor.Results.Meta}, nil
					}
					p.oParams = func(int64) (*consensusAPI.Parameters, error) {
						if donor.Params == nil {
							return nil, provErr
						}
						v := *donor.Params
						v.Height = x
						return &v, nil
					}
				}
				calls := map[string]cCall{
					"GetBlock":                   cGetBlock(ch, x),
					"GetTransactions":            cGetTransactions(ch, x, false),
					"GetTransactionsWithProofs":  cGetTransactions(ch, x, true),
					"GetBlockResults":            cGetBlockResults(ch, x),
					"GetTransactionsWithResults": cGetTransactionsWithResults(ch, x),
					"GetParameters":              cGetParameters(ch, x),
					"StateRoot":                  cStateRoot(ch, x, nil),
				}
				for _, name := range []string{"GetBlock", "GetTransactions", "GetTransactionsWithProofs", "GetBlockResults", "GetTransactionsWithResults", "GetParameters", "StateRoot"} {
					name := name
					if name == "StateRoot" && ch.LBs[x+1] != nil {
						continue // the root after x is legitimately bound by the trusted header x+1
					}
					cs = append(cs, Case{Desc: fmt.Sprintf("%s(%d) untrusted height, provider serves data", name, x), Digest: digestOf([]byte(name), cbor.Marshal(x)), Run: func(w *Worker) Result {
						r := w.runC(ch, serve, calls[name], false)
						if r.Accepted && r.Violation == "" {
							r.Class, r.Violation = "violation", fmt.Sprintf("%s(%d) served for a height without a verified header", name, x)
						}
						return r
					}})
				}
			}
			add("untrusted-heights", cs)
		}
		// --- GetValidators(latest+1): the fallback path through verifyNextValidators.
		if nv := ch.Honest[latest+1]; nv != nil && nv.Validators != nil {
			var cs []Case
			cs = append(cs, Case{Desc: "honest", Digest: 1, Run: func(w *Worker) Result {
				r := w.runC(ch, nil, cGetValidators(ch, latest+1), true)
				if !r.Accepted && r.Violation == "" {
					r.Class, r.Violation = "violation", "honest next validators rejected: "+r.Err
				}
				return r
			}})
			for _, m := range u.validatorsFieldMutants(ch, latest+1) {
				m := m
				cs = append(cs, Case{Desc: m.Desc, Digest: digestOf(cbor.Marshal(m.Val.Height), m.Val.Meta), Run: func(w *Worker) Result {
					return w.runC(ch, func(p *fakeProvider) {
						p.oValidators = func(int64) (*consensusAPI.Validators, error) { v := *m.Val; return &v, nil }
					}, cGetValidators(ch, latest+1), true)
				}})
			}
			add(fmt.Sprintf("%d/GetValidators-next", latest+1), cs)
		}
		// --- "latest" requests: the provider's claim about the latest height is untrusted.
		{
			var cs []Case
			claims := append(append([]int64{}, ch.Heights...), latest+1, 0, -1, 1<<40)
			for _, cl := range claims {
				cl := cl
				cs = append(cs, Case{Desc: fmt.Sprintf("StateRoot(latest), provider claims latest=%d", cl), Digest: digestOf(cbor.Marshal(cl)), Run: func(w *Worker) Result {
					return w.runC(ch, func(p *fakeProvider) { p.claimLatest = cl }, cStateRoot(ch, consensusAPI.HeightLatest, nil), false)
				}})
				cs = append(cs, Case{Desc: fmt.Sprintf("GetBlock(latest), provider claims latest=%d", cl), Digest: digestOf(cbor.Marshal(cl), []byte("b")), Run: func(w *Worker) Result {
					call := func(c *stateless.Core) Result {
						var blk *consensusAPI.Block
						err, pan := guard(func() error {
							var e error
							blk, e = c.GetBlock(context.Background(), consensusAPI.HeightLatest)
							return e
						})
						if pan != "" {
							return panicked(pan)
						}
						if err != nil {
							return rejected(err)
						}
						hon := ch.Honest[blk.Height]
						if hon == nil || hon.Block == nil || ch.LBs[blk.Height] == nil {
							return Result{Accepted: true, Class: "violation", Violation: "block of an untrusted height served as latest"}
						}
						return accepted(diffBlock(hon.Block, blk))
					}
					return w.runC(ch, func(p *fakeProvider) { p.claimLatest = cl }, call, false)
				}})
			}
			add("latest", cs)
		}
	}
	return fams
}
