package main

// Independent semantic comparison of provider responses: what a caller of the
// consensus API gets when it decodes the value handed to it.  Every function
// returns the list of *difference classes* between the honest value and a
// mutant (empty = semantically identical, e.g. a re-encoding).  The oracle
// allows an accepted mutant only if every class is in `unboundClasses`.

import (
	"bytes"
	"fmt"
	"reflect"
	"sort"
	"sync"

	cmtabcitypes "github.com/cometbft/cometbft/abci/types"
	cmtmerkle "github.com/cometbft/cometbft/crypto/merkle"
	cmtproto "github.com/cometbft/cometbft/proto/tendermint/types"
	cmttypes "github.com/cometbft/cometbft/types"

	"github.com/oasisprotocol/oasis-core/go/common/cbor"
	consensusAPI "github.com/oasisprotocol/oasis-core/go/consensus/api"
	cmtAPI "github.com/oasisprotocol/oasis-core/go/consensus/cometbft/api"
)

// unboundClasses are the difference classes that the property does not demand
// to be bound, each with the reason.  They are counted and reported, never
// silently dropped.  Anything else that is accepted is a violation.
var unboundClasses = map[string]string{
	"block.size":                      "core.go: 'Block size cannot be verified' (not part of the header)",
	"block.meta.last_commit.height":   "CometBFT Commit.Hash() (header.LastCommitHash) covers the signatures only",
	"block.meta.last_commit.round":    "CometBFT Commit.Hash() (header.LastCommitHash) covers the signatures only",
	"block.meta.last_commit.block_id": "CometBFT Commit.Hash() (header.LastCommitHash) covers the signatures only",
	"results.tx.log":                  "header.LastResultsHash covers Code, Data, GasWanted, GasUsed only",
	"results.tx.info":                 "header.LastResultsHash covers Code, Data, GasWanted, GasUsed only",
	"results.tx.codespace":            "header.LastResultsHash covers Code, Data, GasWanted, GasUsed only",
	"results.tx.events":               "core.go TODO #6210: events are not provable yet",
	"results.begin_block_events":      "core.go TODO #6210: events are not provable yet",
	"results.end_block_events":        "core.go TODO #6210: events are not provable yet",
	"validators.proposer_priority":    "CometBFT ValidatorSet.Hash() covers public key and voting power only",
	"validators.proposer":             "CometBFT ValidatorSet.Hash() covers public key and voting power only",
	"validators.total_voting_power":   "derived field, recomputed by CometBFT; not part of ValidatorSet.Hash()",
	"params.meta.unhashed":            "CometBFT ConsensusParams.Hash() covers Block.MaxBytes and Block.MaxGas only",
	"proof.total_or_index":            "RFC 6962 audit paths do not bind the tree size: the same path verifies under another (Total, Index) of the same shape; transaction bytes and root stay bound",
	"results.latest-height":           "property text: results are bound only for heights below the latest trusted one",
}

func uniq(ss []string) []string {
	if len(ss) < 2 {
		return ss
	}
	sort.Strings(ss)
	out := ss[:1]
	for _, s := range ss[1:] {
		if s != out[len(out)-1] {
			out = append(out, s)
		}
	}
	return out
}

func diffBlock(a, b *consensusAPI.Block) (d []string) {
	if b == nil {
		return []string{"block.nil"}
	}
	if a.Height != b.Height {
		d = append(d, "block.height")
	}
	if a.Hash != b.Hash {
		d = append(d, "block.hash")
	}
	if !a.Time.Equal(b.Time) {
		d = append(d, "block.time")
	}
	if a.StateRoot.Namespace != b.StateRoot.Namespace {
		d = append(d, "block.state_root.namespace")
	}
	if a.StateRoot.Version != b.StateRoot.Version {
		d = append(d, "block.state_root.version")
	}
	if a.StateRoot.Type != b.StateRoot.Type {
		d = append(d, "block.state_root.type")
	}
	if a.StateRoot.Hash != b.StateRoot.Hash {
		d = append(d, "block.state_root.hash")
	}
	if a.Size != b.Size {
		d = append(d, "block.size")
	}
	if !bytes.Equal(a.Meta, b.Meta) {
		d = append(d, diffBlockMeta(a.Meta, b.Meta)...)
	}
	return uniq(d)
}

func diffBlockMeta(a, b []byte) (d []string) {
	var ma, mb cmtAPI.BlockMeta
	if err := cbor.Unmarshal(a, &ma); err != nil {
		return []string{"harness.original-undecodable"}
	}
	if err := cbor.Unmarshal(b, &mb); err != nil {
		return []string{"block.meta.undecodable"}
	}
	if !bytes.Equal(ma.Header, mb.Header) {
		var ha, hb cmtproto.Header
		if err := ha.Unmarshal(ma.Header); err != nil {
			return []string{"harness.original-undecodable"}
		}
		if err := hb.Unmarshal(mb.Header); err != nil {
			d = append(d, "block.meta.header.undecodable")
		} else {
			xa, e1 := cmttypes.HeaderFromProto(&ha)
			xb, e2 := cmttypes.HeaderFromProto(&hb)
			if e1 != nil || e2 != nil || !reflect.DeepEqual(xa, xb) {
				d = append(d, "block.meta.header")
			}
		}
	}
	if !bytes.Equal(ma.LastCommit, mb.LastCommit) {
		var ca, cb cmtproto.Commit
		if err := ca.Unmarshal(ma.LastCommit); err != nil {
			return []string{"harness.original-undecodable"}
		}
		if err := cb.Unmarshal(mb.LastCommit); err != nil {
			return append(d, "block.meta.last_commit.undecodable")
		}
		// Compare at the proto level (CommitFromProto would additionally validate).
		if ca.Height != cb.Height {
			d = append(d, "block.meta.last_commit.height")
		}
		if ca.Round != cb.Round {
			d = append(d, "block.meta.last_commit.round")
		}
		if !bytes.Equal(ca.BlockID.Hash, cb.BlockID.Hash) || ca.BlockID.PartSetHeader.Total != cb.BlockID.PartSetHeader.Total ||
			!bytes.Equal(ca.BlockID.PartSetHeader.Hash, cb.BlockID.PartSetHeader.Hash) {
			d = append(d, "block.meta.last_commit.block_id")
		}
		if len(ca.Signatures) != len(cb.Signatures) {
			d = append(d, "block.meta.last_commit.signatures")
		} else {
			for i := range ca.Signatures {
				sa, sb := ca.Signatures[i], cb.Signatures[i]
				if sa.BlockIdFlag != sb.BlockIdFlag || !bytes.Equal(sa.ValidatorAddress, sb.ValidatorAddress) ||
					!sa.Timestamp.Equal(sb.Timestamp) || !bytes.Equal(sa.Signature, sb.Signature) {
					d = append(d, "block.meta.last_commit.signatures")
					break
				}
			}
		}
	}
	return d
}

func diffTxs(a, b [][]byte) []string {
	if len(a) != len(b) {
		return []string{"txs.count"}
	}
	for i := range a {
		if !bytes.Equal(a[i], b[i]) {
			return []string{"txs.bytes"}
		}
	}
	return nil
}

func eventsEqual(a, b []cmtabcitypes.Event) bool {
	if len(a) != len(b) {
		return false
	}
	for i := range a {
		if a[i].Type != b[i].Type || len(a[i].Attributes) != len(b[i].Attributes) {
			return false
		}
		for j := range a[i].Attributes {
			if a[i].Attributes[j] != b[i].Attributes[j] {
				return false
			}
		}
	}
	return true
}

func diffResultsMeta(ma, mb *cmtAPI.BlockResultsMeta) (d []string) {
	if len(ma.TxsResults) != len(mb.TxsResults) {
		d = append(d, "results.tx.count")
	} else {
		for i := range ma.TxsResults {
			ra, rb := ma.TxsResults[i], mb.TxsResults[i]
			if ra == nil || rb == nil {
				if ra != rb {
					d = append(d, "results.tx.nil")
				}
				continue
			}
			if ra.Code != rb.Code {
				d = append(d, "results.tx.code")
			}
			if !bytes.Equal(ra.Data, rb.Data) {
				d = append(d, "results.tx.data")
			}
			if ra.GasWanted != rb.GasWanted {
				d = append(d, "results.tx.gas_wanted")
			}
			if ra.GasUsed != rb.GasUsed {
				d = append(d, "results.tx.gas_used")
			}
			if ra.Log != rb.Log {
				d = append(d, "results.tx.log")
			}
			if ra.Info != rb.Info {
				d = append(d, "results.tx.info")
			}
			if ra.Codespace != rb.Codespace {
				d = append(d, "results.tx.codespace")
			}
			if !eventsEqual(ra.Events, rb.Events) {
				d = append(d, "results.tx.events")
			}
		}
	}
	if !eventsEqual(ma.BeginBlockEvents, mb.BeginBlockEvents) {
		d = append(d, "results.begin_block_events")
	}
	if !eventsEqual(ma.EndBlockEvents, mb.EndBlockEvents) {
		d = append(d, "results.end_block_events")
	}
	return d
}

// decodedResults caches the decoding of honest results metas (keyed by the backing array).
var decodedResults sync.Map

func decodeResultsCached(meta []byte) *cmtAPI.BlockResultsMeta {
	if len(meta) == 0 {
		return nil
	}
	if v, ok := decodedResults.Load(&meta[0]); ok {
		return v.(*cmtAPI.BlockResultsMeta)
	}
	var m cmtAPI.BlockResultsMeta
	if err := cbor.Unmarshal(meta, &m); err != nil {
		return nil
	}
	decodedResults.Store(&meta[0], &m)
	return &m
}

func diffResults(a, b *consensusAPI.BlockResults) (d []string) {
	d, _ = diffResultsDecoded(a, b)
	return d
}

// diffResultsDecoded also returns the decoding of b.Meta (nil if undecodable or byte-identical to a's).
func diffResultsDecoded(a, b *consensusAPI.BlockResults) (d []string, mb *cmtAPI.BlockResultsMeta) {
	if b == nil {
		return []string{"results.nil"}, nil
	}
	if a.Height != b.Height {
		d = append(d, "results.height")
	}
	ma := decodeResultsCached(a.Meta)
	if ma == nil {
		return []string{"harness.original-undecodable"}, nil
	}
	if bytes.Equal(a.Meta, b.Meta) {
		return uniq(d), ma
	}
	var m cmtAPI.BlockResultsMeta
	if err := cbor.Unmarshal(b.Meta, &m); err != nil {
		return append(d, "results.meta.undecodable"), nil
	}
	d = append(d, diffResultsMeta(ma, &m)...)
	return uniq(d), &m
}

func diffValidators(a, b *consensusAPI.Validators) (d []string) {
	if b == nil {
		return []string{"validators.nil"}
	}
	if a.Height != b.Height {
		d = append(d, "validators.height")
	}
	if !bytes.Equal(a.Meta, b.Meta) {
		var pa, pb cmtproto.ValidatorSet
		if err := pa.Unmarshal(a.Meta); err != nil {
			return []string{"harness.original-undecodable"}
		}
		if err := pb.Unmarshal(b.Meta); err != nil {
			return append(d, "validators.meta.undecodable")
		}
		if len(pa.Validators) != len(pb.Validators) {
			d = append(d, "validators.count")
		} else {
			for i := range pa.Validators {
				d = append(d, diffValidator(pa.Validators[i], pb.Validators[i])...)
			}
		}
		switch {
		case pa.Proposer == nil || pb.Proposer == nil:
			if pa.Proposer != pb.Proposer {
				d = append(d, "validators.proposer")
			}
		default:
			if len(diffValidator(pa.Proposer, pb.Proposer)) > 0 {
				d = append(d, "validators.proposer")
			}
		}
		if pa.TotalVotingPower != pb.TotalVotingPower {
			d = append(d, "validators.total_voting_power")
		}
	}
	return uniq(d)
}

func diffValidator(a, b *cmtproto.Validator) (d []string) {
	if a == nil || b == nil {
		if a != b {
			d = append(d, "validators.nil-entry")
		}
		return d
	}
	if !bytes.Equal(a.Address, b.Address) {
		d = append(d, "validators.address")
	}
	if !a.PubKey.Equal(b.PubKey) {
		d = append(d, "validators.pub_key")
	}
	if a.VotingPower != b.VotingPower {
		d = append(d, "validators.voting_power")
	}
	if a.ProposerPriority != b.ProposerPriority {
		d = append(d, "validators.proposer_priority")
	}
	return d
}

func diffParams(a, b *consensusAPI.Parameters) (d []string) {
	if b == nil {
		return []string{"params.nil"}
	}
	if a.Height != b.Height {
		d = append(d, "params.height")
	}
	if !bytes.Equal(cbor.Marshal(a.Parameters), cbor.Marshal(b.Parameters)) {
		d = append(d, "params.parameters")
	}
	if !bytes.Equal(a.Meta, b.Meta) {
		var pa, pb cmtproto.ConsensusParams
		if err := pa.Unmarshal(a.Meta); err != nil {
			return []string{"harness.original-undecodable"}
		}
		if err := pb.Unmarshal(b.Meta); err != nil {
			return append(d, "params.meta.undecodable")
		}
		ca, cb := cmttypes.ConsensusParamsFromProto(pa), cmttypes.ConsensusParamsFromProto(pb)
		if ca.Block != cb.Block {
			d = append(d, "params.meta.block")
		}
		if ca.Evidence != cb.Evidence || !reflect.DeepEqual(ca.Validator, cb.Validator) || ca.Version != cb.Version {
			d = append(d, "params.meta.unhashed")
		}
	}
	return uniq(d)
}

// proofsEqual compares two decoded inclusion proofs.
func proofsEqual(a, b *cmtmerkle.Proof) bool {
	if a.Total != b.Total || a.Index != b.Index || !bytes.Equal(a.LeafHash, b.LeafHash) || len(a.Aunts) != len(b.Aunts) {
		return false
	}
	for i := range a.Aunts {
		if !bytes.Equal(a.Aunts[i], b.Aunts[i]) {
			return false
		}
	}
	return true
}

// classify turns a list of difference classes of an ACCEPTED mutant into a
// verdict: "identical", "unbound:<classes>" or a violation text.
func classify(diff []string) (class string, violation string) {
	if len(diff) == 0 {
		return "identical", ""
	}
	var bad []string
	for _, c := range diff {
		if _, ok := unboundClasses[c]; !ok {
			bad = append(bad, c)
		}
	}
	if len(bad) > 0 {
		return "", fmt.Sprintf("accepted although it differs from the header-bound original in %v", bad)
	}
	return "unbound:" + fmt.Sprint(diff), ""
}
