package main

// Field-level (structural) mutants of every provider response type.  These are
// shared by the function-level layer (F) and the Core-level layer (C).

import (
	"fmt"
	"math"
	"time"

	cmtabcitypes "github.com/cometbft/cometbft/abci/types"
	cmtmerkle "github.com/cometbft/cometbft/crypto/merkle"
	cmtproto "github.com/cometbft/cometbft/proto/tendermint/types"

	"github.com/oasisprotocol/oasis-core/go/common/cbor"
	"github.com/oasisprotocol/oasis-core/go/common/crypto/hash"
	consensusAPI "github.com/oasisprotocol/oasis-core/go/consensus/api"
	cmtAPI "github.com/oasisprotocol/oasis-core/go/consensus/cometbft/api"
	mkvsNode "github.com/oasisprotocol/oasis-core/go/storage/mkvs/node"
)

type namedBlock struct {
	Desc string
	Val  *consensusAPI.Block
}
type namedTxs struct {
	Desc string
	Val  [][]byte
}
type namedResults struct {
	Desc string
	Val  *consensusAPI.BlockResults
}
type namedValidators struct {
	Desc string
	Val  *consensusAPI.Validators
}
type namedParams struct {
	Desc string
	Val  *consensusAPI.Parameters
}
type namedBytes struct {
	Desc string
	Val  []byte
}

func flip0(b []byte) []byte {
	if len(b) == 0 {
		return []byte{1}
	}
	return flipBit(b, 0)
}

func flipLast(b []byte) []byte {
	if len(b) == 0 {
		return []byte{1}
	}
	return flipBit(b, 8*len(b)-1)
}

// bytesAlternatives: the small alternative set for a byte-string field.
func bytesAlternatives(b []byte) []namedBytes {
	out := []namedBytes{
		{"first bit flipped", flip0(b)},
		{"last bit flipped", flipLast(b)},
		{"empty", []byte{}},
		{"extended by 0x00", append(cloneBytes(b), 0)},
		{"all zero", make([]byte, len(b))},
	}
	if len(b) > 0 {
		out = append(out, namedBytes{"truncated by one byte", cloneBytes(b[:len(b)-1])})
	}
	return out
}

func int64Alternatives(v int64) []int64 {
	cands := []int64{v + 1, v - 1, 0, -v, 1, math.MaxInt64, math.MinInt64}
	var out []int64
	seen := map[int64]bool{v: true}
	for _, c := range cands {
		if !seen[c] {
			seen[c] = true
			out = append(out, c)
		}
	}
	return out
}

func (c *Chain) otherHeights(h int64) []int64 {
	var out []int64
	for _, x := range c.Heights {
		if x != h {
			out = append(out, x)
		}
	}
	return out
}

// ---- Block --------------------------------------------------------------------

func copyBlock(b *consensusAPI.Block) *consensusAPI.Block {
	nb := *b
	nb.Meta = cloneBytes(b.Meta)
	return &nb
}

// others returns honest values of the same kind from every other height of
// every chain ("the other block's value").
type otherRef struct {
	tag string
	hon *Honest
}

func (u *Universe) others(ch *Chain, h int64) []otherRef {
	var out []otherRef
	for _, c := range u.Chains {
		for _, x := range c.Heights {
			if c == ch && x == h {
				continue
			}
			out = append(out, otherRef{fmt.Sprintf("%s/%d", c.Name, x), c.Honest[x]})
		}
	}
	return out
}

func (u *Universe) blockFieldMutants(ch *Chain, h int64) []namedBlock {
	orig := ch.Honest[h].Block
	var out []namedBlock
	add := func(desc string, f func(b *consensusAPI.Block)) {
		nb := copyBlock(orig)
		f(nb)
		out = append(out, namedBlock{desc, nb})
	}
	for _, v := range int64Alternatives(orig.Height) {
		v := v
		add(fmt.Sprintf("Height=%d", v), func(b *consensusAPI.Block) { b.Height = v })
	}
	for _, x := range ch.otherHeights(h) {
		x := x
		add(fmt.Sprintf("Height=%d (other trusted height)", x), func(b *consensusAPI.Block) { b.Height = x })
	}
	add("Hash=zero", func(b *consensusAPI.Block) { b.Hash = hash.Hash{} })
	add("Hash=empty-hash constant", func(b *consensusAPI.Block) { b.Hash.Empty() })
	add("Hash=state root hash", func(b *consensusAPI.Block) { b.Hash = b.StateRoot.Hash })
	for _, d := range []time.Duration{time.Second, -time.Second, time.Nanosecond, -time.Nanosecond, time.Millisecond, time.Hour, -24 * time.Hour} {
		d := d
		add(fmt.Sprintf("Time shifted by %v", d), func(b *consensusAPI.Block) { b.Time = b.Time.Add(d) })
	}
	add("Time=zero", func(b *consensusAPI.Block) { b.Time = time.Time{} })
	add("Time=unix epoch", func(b *consensusAPI.Block) { b.Time = time.Unix(0, 0) })
	add("Time=untruncated header time", func(b *consensusAPI.Block) { b.Time = ch.LBs[h].Time })
	add("Time same instant, zone +01:00 (identical)", func(b *consensusAPI.Block) { b.Time = b.Time.In(time.FixedZone("x", 3600)) })
	add("Time same instant, UTC (identical)", func(b *consensusAPI.Block) { b.Time = b.Time.UTC() })
	add("Time same wall clock read in zone +01:00", func(b *consensusAPI.Block) {
		t := b.Time.UTC()
		b.Time = time.Date(t.Year(), t.Month(), t.Day(), t.Hour(), t.Minute(), t.Second(), 0, time.FixedZone("x", 3600))
	})
	add("StateRoot.Namespace=0xff..", func(b *consensusAPI.Block) {
		for i := range b.StateRoot.Namespace {
			b.StateRoot.Namespace[i] = 0xff
		}
	})
	for _, v := range []uint64{orig.StateRoot.Version + 1, orig.StateRoot.Version - 1, 0, uint64(h), uint64(h) + 1, math.MaxUint64} {
		v := v
		if v == orig.StateRoot.Version {
			continue
		}
		add(fmt.Sprintf("StateRoot.Version=%d", v), func(b *consensusAPI.Block) { b.StateRoot.Version = v })
	}
	for _, v := range []mkvsNode.RootType{0, mkvsNode.RootTypeIO, 3, 255} {
		v := v
		add(fmt.Sprintf("StateRoot.Type=%d", v), func(b *consensusAPI.Block) { b.StateRoot.Type = v })
	}
	add("StateRoot.Hash=zero", func(b *consensusAPI.Block) { b.StateRoot.Hash = hash.Hash{} })
	add("StateRoot.Hash=empty-hash constant", func(b *consensusAPI.Block) { b.StateRoot.Hash.Empty() })
	add("StateRoot.Hash=block hash", func(b *consensusAPI.Block) { b.StateRoot.Hash = b.Hash })
	if ch.Honest[h].HasStateRoot {
		add("StateRoot.Hash=state root AFTER this block", func(b *consensusAPI.Block) { b.StateRoot.Hash = ch.Honest[h].StateRoot })
	}
	for _, v := range []uint64{orig.Size + 1, orig.Size - 1, 0, math.MaxUint64} {
		v := v
		add(fmt.Sprintf("Size=%d", v), func(b *consensusAPI.Block) { b.Size = v })
	}
	add("Meta=nil", func(b *consensusAPI.Block) { b.Meta = nil })
	add("Meta=empty", func(b *consensusAPI.Block) { b.Meta = []byte{} })
	add("Meta=CBOR null", func(b *consensusAPI.Block) { b.Meta = []byte{0xf6} })
	add("Meta=CBOR empty map", func(b *consensusAPI.Block) { b.Meta = []byte{0xa0} })
	// Other blocks' values, field by field, and whole-block substitution.
	for _, o := range u.others(ch, h) {
		o := o
		if o.hon.Block == nil {
			continue
		}
		ob := o.hon.Block
		add("whole block of "+o.tag, func(b *consensusAPI.Block) { *b = *copyBlock(ob) })
		add("Hash of "+o.tag, func(b *consensusAPI.Block) { b.Hash = ob.Hash })
		add("Time of "+o.tag, func(b *consensusAPI.Block) { b.Time = ob.Time })
		add("StateRoot of "+o.tag, func(b *consensusAPI.Block) { b.StateRoot = ob.StateRoot })
		add("StateRoot.Hash of "+o.tag, func(b *consensusAPI.Block) { b.StateRoot.Hash = ob.StateRoot.Hash })
		add("Meta of "+o.tag, func(b *consensusAPI.Block) { b.Meta = cloneBytes(ob.Meta) })
		add("all but Meta of "+o.tag, func(b *consensusAPI.Block) { m := b.Meta; *b = *copyBlock(ob); b.Meta = m })
	}
	// Structural mutants of Meta.
	for _, m := range u.blockMetaMutants(ch, h) {
		m := m
		add("Meta: "+m.Desc, func(b *consensusAPI.Block) { b.Meta = m.Val })
	}
	return out
}

// blockMetaMutants: decode Meta, alter one element, re-encode; plus hand-made
// CBOR re-encodings of the unchanged value.
func (u *Universe) blockMetaMutants(ch *Chain, h int64) []namedBytes {
	orig := ch.Honest[h].Block
	var meta cmtAPI.BlockMeta
	if err := cbor.Unmarshal(orig.Meta, &meta); err != nil {
		return nil
	}
	var out []namedBytes
	enc := func(desc string, m cmtAPI.BlockMeta) { out = append(out, namedBytes{desc, cbor.Marshal(m)}) }

	// Header bytes as a whole.
	for _, a := range bytesAlternatives(meta.Header) {
		enc("Header "+a.Desc, cmtAPI.BlockMeta{Header: a.Val, LastCommit: meta.LastCommit})
	}
	for _, a := range bytesAlternatives(meta.LastCommit) {
		enc("LastCommit "+a.Desc, cmtAPI.BlockMeta{Header: meta.Header, LastCommit: a.Val})
	}
	enc("Header and LastCommit swapped", cmtAPI.BlockMeta{Header: meta.LastCommit, LastCommit: meta.Header})
	for _, o := range u.others(ch, h) {
		if o.hon.Block == nil {
			continue
		}
		var om cmtAPI.BlockMeta
		if cbor.Unmarshal(o.hon.Block.Meta, &om) != nil {
			continue
		}
		enc("Header of "+o.tag, cmtAPI.BlockMeta{Header: om.Header, LastCommit: meta.LastCommit})
		enc("LastCommit of "+o.tag, cmtAPI.BlockMeta{Header: meta.Header, LastCommit: om.LastCommit})
	}

	// Header, field by field.
	var hdr cmtproto.Header
	if err := hdr.Unmarshal(meta.Header); err == nil {
		hmut := func(desc string, f func(x *cmtproto.Header)) {
			var x cmtproto.Header
			_ = x.Unmarshal(meta.Header)
			f(&x)
			b, err := x.Marshal()
			if err != nil {
				return
			}
			enc("Header."+desc, cmtAPI.BlockMeta{Header: b, LastCommit: meta.LastCommit})
		}
		hmut("Version.Block+1", func(x *cmtproto.Header) { x.Version.Block++ })
		hmut("Version.App+1", func(x *cmtproto.Header) { x.Version.App++ })
		hmut("ChainID+x", func(x *cmtproto.Header) { x.ChainID += "x" })
		hmut("Height+1", func(x *cmtproto.Header) { x.Height++ })
		hmut("Height-1", func(x *cmtproto.Header) { x.Height-- })
		hmut("Time+1ns", func(x *cmtproto.Header) { x.Time = x.Time.Add(time.Nanosecond) })
		hmut("Time+1s", func(x *cmtproto.Header) { x.Time = x.Time.Add(time.Second) })
		hmut("LastBlockId.Hash flipped", func(x *cmtproto.Header) { x.LastBlockId.Hash = flip0(x.LastBlockId.Hash) })
		hmut("LastBlockId.PartSetHeader.Total+1", func(x *cmtproto.Header) { x.LastBlockId.PartSetHeader.Total++ })
		hmut("LastBlockId.PartSetHeader.Hash flipped", func(x *cmtproto.Header) { x.LastBlockId.PartSetHeader.Hash = flip0(x.LastBlockId.PartSetHeader.Hash) })
		hmut("LastCommitHash flipped", func(x *cmtproto.Header) { x.LastCommitHash = flip0(x.LastCommitHash) })
		hmut("DataHash flipped", func(x *cmtproto.Header) { x.DataHash = flip0(x.DataHash) })
		hmut("ValidatorsHash flipped", func(x *cmtproto.Header) { x.ValidatorsHash = flip0(x.ValidatorsHash) })
		hmut("NextValidatorsHash flipped", func(x *cmtproto.Header) { x.NextValidatorsHash = flip0(x.NextValidatorsHash) })
		hmut("ConsensusHash flipped", func(x *cmtproto.Header) { x.ConsensusHash = flip0(x.ConsensusHash) })
		hmut("AppHash flipped", func(x *cmtproto.Header) { x.AppHash = flip0(x.AppHash) })
		hmut("LastResultsHash flipped", func(x *cmtproto.Header) { x.LastResultsHash = flip0(x.LastResultsHash) })
		hmut("EvidenceHash flipped", func(x *cmtproto.Header) { x.EvidenceHash = flip0(x.EvidenceHash) })
		hmut("ProposerAddress flipped", func(x *cmtproto.Header) { x.ProposerAddress = flip0(x.ProposerAddress) })
	}

	// LastCommit, element by element.
	var com cmtproto.Commit
	if err := com.Unmarshal(meta.LastCommit); err == nil {
		cmut := func(desc string, f func(x *cmtproto.Commit)) {
			var x cmtproto.Commit
			_ = x.Unmarshal(meta.LastCommit)
			f(&x)
			b, err := x.Marshal()
			if err != nil {
				return
			}
			enc("LastCommit."+desc, cmtAPI.BlockMeta{Header: meta.Header, LastCommit: b})
		}
		for _, v := range []int64{com.Height + 1, com.Height - 1, 0, 1, h, math.MaxInt64} {
			v := v
			if v == com.Height {
				continue
			}
			cmut(fmt.Sprintf("Height=%d", v), func(x *cmtproto.Commit) { x.Height = v })
		}
		for _, v := range []int32{com.Round + 1, com.Round - 1, 0, math.MaxInt32} {
			v := v
			if v == com.Round {
				continue
			}
			cmut(fmt.Sprintf("Round=%d", v), func(x *cmtproto.Commit) { x.Round = v })
		}
		cmut("BlockID.Hash flipped", func(x *cmtproto.Commit) { x.BlockID.Hash = flip0(x.BlockID.Hash) })
		cmut("BlockID.Hash=this block's hash", func(x *cmtproto.Commit) { x.BlockID.Hash = cloneBytes(orig.Hash[:]) })
		cmut("BlockID zero", func(x *cmtproto.Commit) { x.BlockID = cmtproto.BlockID{} })
		cmut("BlockID.PartSetHeader.Total+1", func(x *cmtproto.Commit) { x.BlockID.PartSetHeader.Total++ })
		cmut("BlockID.PartSetHeader.Hash flipped", func(x *cmtproto.Commit) { x.BlockID.PartSetHeader.Hash = flip0(x.BlockID.PartSetHeader.Hash) })
		n := len(com.Signatures)
		cmut("Signatures=none", func(x *cmtproto.Commit) { x.Signatures = nil })
		for i := 0; i < n; i++ {
			i := i
			cmut(fmt.Sprintf("Signatures drop %d", i), func(x *cmtproto.Commit) {
				x.Signatures = append(append([]cmtproto.CommitSig{}, x.Signatures[:i]...), x.Signatures[i+1:]...)
			})
			cmut(fmt.Sprintf("Signatures duplicate %d", i), func(x *cmtproto.Commit) {
				s := append([]cmtproto.CommitSig{}, x.Signatures[:i+1]...)
				x.Signatures = append(s, x.Signatures[i:]...)
			})
			if i+1 < n {
				cmut(fmt.Sprintf("Signatures swap %d,%d", i, i+1), func(x *cmtproto.Commit) {
					x.Signatures[i], x.Signatures[i+1] = x.Signatures[i+1], x.Signatures[i]
				})
			}
			for _, fl := range []cmtproto.BlockIDFlag{cmtproto.BlockIDFlagAbsent, cmtproto.BlockIDFlagCommit, cmtproto.BlockIDFlagNil, 0, 4} {
				fl := fl
				if fl == com.Signatures[i].BlockIdFlag {
					continue
				}
				cmut(fmt.Sprintf("Signatures[%d].BlockIdFlag=%d", i, fl), func(x *cmtproto.Commit) { x.Signatures[i].BlockIdFlag = fl })
			}
			cmut(fmt.Sprintf("Signatures[%d] made absent", i), func(x *cmtproto.Commit) {
				x.Signatures[i] = cmtproto.CommitSig{BlockIdFlag: cmtproto.BlockIDFlagAbsent}
			})
			cmut(fmt.Sprintf("Signatures[%d].ValidatorAddress flipped", i), func(x *cmtproto.Commit) {
				x.Signatures[i].ValidatorAddress = flip0(x.Signatures[i].ValidatorAddress)
			})
			cmut(fmt.Sprintf("Signatures[%d].Timestamp+1ns", i), func(x *cmtproto.Commit) {
				x.Signatures[i].Timestamp = x.Signatures[i].Timestamp.Add(time.Nanosecond)
			})
			cmut(fmt.Sprintf("Signatures[%d].Timestamp-1s", i), func(x *cmtproto.Commit) {
				x.Signatures[i].Timestamp = x.Signatures[i].Timestamp.Add(-time.Second)
			})
			for _, a := range bytesAlternatives(com.Signatures[i].Signature) {
				a := a
				cmut(fmt.Sprintf("Signatures[%d].Signature %s", i, a.Desc), func(x *cmtproto.Commit) { x.Signatures[i].Signature = a.Val })
			}
		}
		if n >= 2 && n <= 4 {
			for _, p := range permutations(n)[1:] {
				p := p
				cmut(fmt.Sprintf("Signatures permuted %v", p), func(x *cmtproto.Commit) {
					s := make([]cmtproto.CommitSig, n)
					for k, src := range p {
						s[k] = x.Signatures[src]
					}
					x.Signatures = s
				})
			}
		}
	}

	// Re-encodings of the unchanged value and near misses, hand-made CBOR.
	kh, kc := cborText("header"), cborText("last_commit")
	vh, vc := cborBytes(meta.Header), cborBytes(meta.LastCommit)
	re := func(desc string, b []byte) { out = append(out, namedBytes{"re-encoding: " + desc, b}) }
	re("canonical by hand (identical)", cat(cborHead(5, 2), kh, vh, kc, vc))
	re("keys in the other order (same value)", cat(cborHead(5, 2), kc, vc, kh, vh))
	re("indefinite-length map (same value)", cat([]byte{0xbf}, kh, vh, kc, vc, []byte{0xff}))
	re("non-minimal length of header bytes (same value)", cat(cborHead(5, 2), kh, cborHeadWide(2, uint64(len(meta.Header))), meta.Header, kc, vc))
	re("non-minimal map length (same value)", cat([]byte{0xb8, 0x02}, kh, vh, kc, vc))
	re("extra unknown key", cat(cborHead(5, 3), kh, vh, kc, vc, cborText("zzz"), []byte{0x01}))
	re("self-described tag 55799 prefix", cat([]byte{0xd9, 0xd9, 0xf7}, cborHead(5, 2), kh, vh, kc, vc))
	re("header as text string", cat(cborHead(5, 2), kh, append(cborHead(3, uint64(len(meta.Header))), meta.Header...), kc, vc))
	re("array instead of map", cat(cborHead(4, 2), vh, vc))
	re("two concatenated items", cat(cborHead(5, 2), kh, vh, kc, vc, cborHead(5, 2), kh, vh, kc, vc))
	for _, o := range u.others(ch, h) {
		if o.hon.Block == nil {
			continue
		}
		var om cmtAPI.BlockMeta
		if cbor.Unmarshal(o.hon.Block.Meta, &om) != nil {
			continue
		}
		ovh := cborBytes(om.Header)
		re("duplicate key header: honest then "+o.tag, cat(cborHead(5, 3), kh, vh, kh, ovh, kc, vc))
		re("duplicate key header: "+o.tag+" then honest", cat(cborHead(5, 3), kh, ovh, kh, vh, kc, vc))
		break
	}
	return out
}

// ---- transaction lists ----------------------------------------------------------

func copyTxs(t [][]byte) [][]byte { return append([][]byte{}, t...) }

func (u *Universe) txsFieldMutants(ch *Chain, h int64) []namedTxs {
	orig := ch.Honest[h].Txs
	n := len(orig)
	var out []namedTxs
	add := func(desc string, t [][]byte) { out = append(out, namedTxs{desc, t}) }
	if n > 0 {
		add("empty list", [][]byte{})
		add("nil list", nil)
	} else {
		add("empty non-nil list (identical)", [][]byte{})
	}
	extra := [][]byte{{}, {0x00}, []byte("x")}
	extraName := []string{"empty tx", "tx 0x00", "tx 'x'"}
	for k, e := range extra {
		add("append "+extraName[k], append(copyTxs(orig), e))
		add("prepend "+extraName[k], append([][]byte{e}, orig...))
	}
	for i := 0; i < n; i++ {
		add(fmt.Sprintf("drop tx %d", i), append(copyTxs(orig[:i]), orig[i+1:]...))
		d := append(copyTxs(orig[:i+1]), orig[i:]...)
		add(fmt.Sprintf("duplicate tx %d", i), d)
		add(fmt.Sprintf("append copy of tx %d", i), append(copyTxs(orig), orig[i]))
		for _, a := range bytesAlternatives(orig[i]) {
			t := copyTxs(orig)
			t[i] = a.Val
			add(fmt.Sprintf("tx %d %s", i, a.Desc), t)
		}
		{
			t := copyTxs(orig)
			hsh := hash.NewFromBytes(orig[i])
			t[i] = hsh[:]
			add(fmt.Sprintf("tx %d replaced by its own hash", i), t)
		}
		if i+1 < n {
			t := copyTxs(orig)
			t[i], t[i+1] = t[i+1], t[i]
			add(fmt.Sprintf("swap tx %d,%d", i, i+1), t)
			m := append(copyTxs(orig[:i]), cat(orig[i], orig[i+1]))
			m = append(m, orig[i+2:]...)
			add(fmt.Sprintf("merge tx %d,%d into one", i, i+1), m)
		}
		for j := 0; j < n; j++ {
			if j != i && string(orig[j]) != string(orig[i]) {
				t := copyTxs(orig)
				t[i] = orig[j]
				add(fmt.Sprintf("tx %d replaced by tx %d", i, j), t)
			}
		}
	}
	if n >= 2 && n <= 4 {
		for _, p := range permutations(n)[1:] {
			t := make([][]byte, n)
			for k, src := range p {
				t[k] = orig[src]
			}
			add(fmt.Sprintf("permuted %v", p), t)
		}
	}
	if n >= 2 {
		// Merkle-structure confusions: hand the provider's inner nodes as "transactions".
		leaves := refTxLeaves(orig)
		k := refSplit(n)
		add("two 'transactions' = left and right subtree roots", [][]byte{refRoot(leaves[:k]), refRoot(leaves[k:])})
		add("one 'transaction' = data hash", [][]byte{refDataHash(orig)})
		add("list of leaf hashes instead of transactions", leaves)
	}
	for _, o := range u.others(ch, h) {
		if !o.hon.HasTxs {
			continue
		}
		if len(diffTxs(orig, o.hon.Txs)) == 0 {
			continue
		}
		add("whole list of "+o.tag, copyTxs(o.hon.Txs))
		for j, otx := range o.hon.Txs {
			if j >= 3 && j < len(o.hon.Txs)-1 {
				continue // first three and the last (metadata) transaction of the other block
			}
			for i := 0; i < n; i++ {
				if string(orig[i]) == string(otx) {
					continue
				}
				t := copyTxs(orig)
				t[i] = otx
				add(fmt.Sprintf("tx %d replaced by tx %d of %s", i, j, o.tag), t)
			}
			add(fmt.Sprintf("append tx %d of %s", j, o.tag), append(copyTxs(orig), otx))
		}
	}
	return out
}

// ---- block results --------------------------------------------------------------

func (u *Universe) resultsFieldMutants(ch *Chain, h int64) []namedResults {
	orig := ch.Honest[h].Results
	var out []namedResults
	add := func(desc string, height int64, meta []byte) {
		out = append(out, namedResults{desc, &consensusAPI.BlockResults{Height: height, Meta: meta}})
	}
	for _, v := range int64Alternatives(orig.Height) {
		add(fmt.Sprintf("Height=%d", v), v, orig.Meta)
	}
	for _, x := range ch.otherHeights(h) {
		add(fmt.Sprintf("Height=%d (other trusted height)", x), x, orig.Meta)
	}
	add("Meta=nil", orig.Height, nil)
	add("Meta=empty", orig.Height, []byte{})
	add("Meta=CBOR null", orig.Height, []byte{0xf6})
	add("Meta=CBOR empty map", orig.Height, []byte{0xa0})
	for _, o := range u.others(ch, h) {
		if o.hon.Results == nil {
			continue
		}
		add("whole results of "+o.tag, o.hon.Results.Height, o.hon.Results.Meta)
		add("Meta of "+o.tag, orig.Height, o.hon.Results.Meta)
	}
	var meta cmtAPI.BlockResultsMeta
	if err := cbor.Unmarshal(orig.Meta, &meta); err != nil {
		return out
	}
	mut := func(desc string, f func(m *cmtAPI.BlockResultsMeta)) {
		var m cmtAPI.BlockResultsMeta
		_ = cbor.Unmarshal(orig.Meta, &m) // fresh deep copy
		f(&m)
		add("Meta: "+desc, orig.Height, cbor.Marshal(m))
	}
	mut("re-encoded unchanged (identical)", func(m *cmtAPI.BlockResultsMeta) {})
	n := len(meta.TxsResults)
	mut("TxsResults=none", func(m *cmtAPI.BlockResultsMeta) { m.TxsResults = nil })
	mut("append empty result", func(m *cmtAPI.BlockResultsMeta) {
		m.TxsResults = append(m.TxsResults, &cmtabcitypes.ResponseDeliverTx{})
	})
	mut("append nil result", func(m *cmtAPI.BlockResultsMeta) { m.TxsResults = append(m.TxsResults, nil) })
	mut("prepend empty result", func(m *cmtAPI.BlockResultsMeta) {
		m.TxsResults = append([]*cmtabcitypes.ResponseDeliverTx{{}}, m.TxsResults...)
	})
	mut("BeginBlockEvents dropped", func(m *cmtAPI.BlockResultsMeta) { m.BeginBlockEvents = nil })
	mut("EndBlockEvents dropped", func(m *cmtAPI.BlockResultsMeta) { m.EndBlockEvents = nil })
	mut("BeginBlockEvents extra event", func(m *cmtAPI.BlockResultsMeta) {
		m.BeginBlockEvents = append(m.BeginBlockEvents, cmtabcitypes.Event{Type: "forged"})
	})
	mut("EndBlockEvents extra event", func(m *cmtAPI.BlockResultsMeta) {
		m.EndBlockEvents = append(m.EndBlockEvents, cmtabcitypes.Event{Type: "forged"})
	})
	mut("Begin/End events swapped", func(m *cmtAPI.BlockResultsMeta) {
		m.BeginBlockEvents, m.EndBlockEvents = m.EndBlockEvents, m.BeginBlockEvents
	})
	for i := 0; i < n; i++ {
		i := i
		r := meta.TxsResults[i]
		mut(fmt.Sprintf("drop result %d", i), func(m *cmtAPI.BlockResultsMeta) {
			m.TxsResults = append(m.TxsResults[:i:i], m.TxsResults[i+1:]...)
		})
		mut(fmt.Sprintf("duplicate result %d", i), func(m *cmtAPI.BlockResultsMeta) {
			s := append([]*cmtabcitypes.ResponseDeliverTx{}, m.TxsResults[:i+1]...)
			m.TxsResults = append(s, m.TxsResults[i:]...)
		})
		mut(fmt.Sprintf("result %d = nil", i), func(m *cmtAPI.BlockResultsMeta) { m.TxsResults[i] = nil })
		mut(fmt.Sprintf("result %d = empty", i), func(m *cmtAPI.BlockResultsMeta) { m.TxsResults[i] = &cmtabcitypes.ResponseDeliverTx{} })
		if i+1 < n {
			mut(fmt.Sprintf("swap results %d,%d", i, i+1), func(m *cmtAPI.BlockResultsMeta) {
				m.TxsResults[i], m.TxsResults[i+1] = m.TxsResults[i+1], m.TxsResults[i]
			})
		}
		if r == nil {
			continue
		}
		for _, v := range []uint32{r.Code + 1, r.Code - 1, 0, 1, math.MaxUint32} {
			v := v
			if v == r.Code {
				continue
			}
			mut(fmt.Sprintf("result %d Code=%d", i, v), func(m *cmtAPI.BlockResultsMeta) { m.TxsResults[i].Code = v })
		}
		for _, a := range bytesAlternatives(r.Data) {
			a := a
			if string(a.Val) == string(r.Data) {
				continue
			}
			mut(fmt.Sprintf("result %d Data %s", i, a.Desc), func(m *cmtAPI.BlockResultsMeta) { m.TxsResults[i].Data = a.Val })
		}
		for _, v := range []int64{r.GasWanted + 1, r.GasWanted - 1, 0, -1, math.MaxInt64} {
			v := v
			if v == r.GasWanted {
				continue
			}
			mut(fmt.Sprintf("result %d GasWanted=%d", i, v), func(m *cmtAPI.BlockResultsMeta) { m.TxsResults[i].GasWanted = v })
		}
		for _, v := range []int64{r.GasUsed + 1, r.GasUsed - 1, 0, -1, math.MaxInt64} {
			v := v
			if v == r.GasUsed {
				continue
			}
			mut(fmt.Sprintf("result %d GasUsed=%d", i, v), func(m *cmtAPI.BlockResultsMeta) { m.TxsResults[i].GasUsed = v })
		}
		mut(fmt.Sprintf("result %d GasWanted/GasUsed swapped", i), func(m *cmtAPI.BlockResultsMeta) {
			m.TxsResults[i].GasWanted, m.TxsResults[i].GasUsed = m.TxsResults[i].GasUsed, m.TxsResults[i].GasWanted
		})
		mut(fmt.Sprintf("result %d Log changed", i), func(m *cmtAPI.BlockResultsMeta) { m.TxsResults[i].Log += "x" })
		mut(fmt.Sprintf("result %d Info changed", i), func(m *cmtAPI.BlockResultsMeta) { m.TxsResults[i].Info += "x" })
		mut(fmt.Sprintf("result %d Codespace changed", i), func(m *cmtAPI.BlockResultsMeta) { m.TxsResults[i].Codespace += "x" })
		mut(fmt.Sprintf("result %d Events dropped", i), func(m *cmtAPI.BlockResultsMeta) { m.TxsResults[i].Events = nil })
		mut(fmt.Sprintf("result %d Events extra", i), func(m *cmtAPI.BlockResultsMeta) {
			m.TxsResults[i].Events = append(m.TxsResults[i].Events, cmtabcitypes.Event{Type: "forged"})
		})
	}
	if n >= 2 && n <= 4 {
		for _, p := range permutations(n)[1:] {
			p := p
			mut(fmt.Sprintf("results permuted %v", p), func(m *cmtAPI.BlockResultsMeta) {
				s := make([]*cmtabcitypes.ResponseDeliverTx, n)
				for k, src := range p {
					s[k] = m.TxsResults[src]
				}
				m.TxsResults = s
			})
		}
	}
	return out
}

// ---- validators -----------------------------------------------------------------

func (u *Universe) validatorsFieldMutants(ch *Chain, h int64) []namedValidators {
	orig := ch.Honest[h].Validators
	var out []namedValidators
	add := func(desc string, height int64, meta []byte) {
		out = append(out, namedValidators{desc, &consensusAPI.Validators{Height: height, Meta: meta}})
	}
	for _, v := range int64Alternatives(orig.Height) {
		add(fmt.Sprintf("Height=%d", v), v, orig.Meta)
	}
	for _, x := range ch.otherHeights(h) {
		add(fmt.Sprintf("Height=%d (other trusted height)", x), x, orig.Meta)
	}
	add("Meta=nil", orig.Height, nil)
	add("Meta=empty", orig.Height, []byte{})
	for _, o := range u.others(ch, h) {
		if o.hon.Validators == nil {
			continue
		}
		add("whole validators of "+o.tag, o.hon.Validators.Height, o.hon.Validators.Meta)
		add("Meta of "+o.tag, orig.Height, o.hon.Validators.Meta)
	}
	var vs cmtproto.ValidatorSet
	if err := vs.Unmarshal(orig.Meta); err != nil {
		return out
	}
	mut := func(desc string, f func(x *cmtproto.ValidatorSet)) {
		var x cmtproto.ValidatorSet
		_ = x.Unmarshal(orig.Meta)
		f(&x)
		b, err := x.Marshal()
		if err != nil {
			return
		}
		add("Meta: "+desc, orig.Height, b)
	}
	mut("re-encoded unchanged (identical)", func(x *cmtproto.ValidatorSet) {})
	mut("Validators=none", func(x *cmtproto.ValidatorSet) { x.Validators = nil })
	mut("Proposer=nil", func(x *cmtproto.ValidatorSet) { x.Proposer = nil })
	mut("TotalVotingPower+1", func(x *cmtproto.ValidatorSet) { x.TotalVotingPower++ })
	mut("TotalVotingPower=0", func(x *cmtproto.ValidatorSet) { x.TotalVotingPower = 0 })
	n := len(vs.Validators)
	if n > 1 {
		mut("Proposer=other validator", func(x *cmtproto.ValidatorSet) {
			for _, v := range x.Validators {
				if string(v.Address) != string(x.Proposer.GetAddress()) {
					x.Proposer = v
					return
				}
			}
		})
	}
	for i := 0; i < n; i++ {
		i := i
		mut(fmt.Sprintf("drop validator %d", i), func(x *cmtproto.ValidatorSet) {
			x.Validators = append(x.Validators[:i:i], x.Validators[i+1:]...)
		})
		mut(fmt.Sprintf("duplicate validator %d", i), func(x *cmtproto.ValidatorSet) {
			s := append([]*cmtproto.Validator{}, x.Validators[:i+1]...)
			x.Validators = append(s, x.Validators[i:]...)
		})
		if i+1 < n {
			mut(fmt.Sprintf("swap validators %d,%d", i, i+1), func(x *cmtproto.ValidatorSet) {
				x.Validators[i], x.Validators[i+1] = x.Validators[i+1], x.Validators[i]
			})
		}
		for _, d := range []int64{1, -1} {
			d := d
			mut(fmt.Sprintf("validator %d VotingPower%+d", i, d), func(x *cmtproto.ValidatorSet) { x.Validators[i].VotingPower += d })
		}
		mut(fmt.Sprintf("validator %d VotingPower=0", i), func(x *cmtproto.ValidatorSet) { x.Validators[i].VotingPower = 0 })
		mut(fmt.Sprintf("validator %d ProposerPriority+1", i), func(x *cmtproto.ValidatorSet) { x.Validators[i].ProposerPriority++ })
		mut(fmt.Sprintf("validator %d Address flipped", i), func(x *cmtproto.ValidatorSet) {
			x.Validators[i].Address = flip0(x.Validators[i].Address)
		})
		mut(fmt.Sprintf("validator %d PubKey flipped", i), func(x *cmtproto.ValidatorSet) {
			if ed := x.Validators[i].PubKey.GetEd25519(); ed != nil {
				x.Validators[i].PubKey.Sum.(*cmtcryptoEd).Ed25519 = flip0(ed)
			}
		})
		mut(fmt.Sprintf("validator %d PubKey and Address of a forged key", i), func(x *cmtproto.ValidatorSet) {
			forged := forgedValidator(i)
			x.Validators[i].PubKey = forged.PubKey
			x.Validators[i].Address = forged.Address
		})
	}
	mut("append forged validator", func(x *cmtproto.ValidatorSet) { x.Validators = append(x.Validators, forgedValidator(99)) })
	return out
}

// ---- parameters -----------------------------------------------------------------

func (u *Universe) paramsFieldMutants(ch *Chain, h int64) []namedParams {
	orig := ch.Honest[h].Params
	var out []namedParams
	add := func(desc string, f func(p *consensusAPI.Parameters)) {
		np := *orig
		np.Meta = cloneBytes(orig.Meta)
		np.Parameters.GasCosts = nil
		for k, v := range orig.Parameters.GasCosts {
			if np.Parameters.GasCosts == nil {
				np.Parameters.GasCosts = map[transactionOp]transactionGas{}
			}
			np.Parameters.GasCosts[k] = v
		}
		f(&np)
		out = append(out, namedParams{desc, &np})
	}
	for _, v := range int64Alternatives(orig.Height) {
		v := v
		add(fmt.Sprintf("Height=%d", v), func(p *consensusAPI.Parameters) { p.Height = v })
	}
	for _, x := range ch.otherHeights(h) {
		x := x
		add(fmt.Sprintf("Height=%d (other trusted height)", x), func(p *consensusAPI.Parameters) { p.Height = x })
	}
	add("Meta=nil", func(p *consensusAPI.Parameters) { p.Meta = nil })
	add("Meta=empty", func(p *consensusAPI.Parameters) { p.Meta = []byte{} })
	for _, o := range u.others(ch, h) {
		o := o
		if o.hon.Params == nil {
			continue
		}
		add("whole parameters of "+o.tag, func(p *consensusAPI.Parameters) { *p = *o.hon.Params })
		add("Meta of "+o.tag, func(p *consensusAPI.Parameters) { p.Meta = cloneBytes(o.hon.Params.Meta) })
		add("Parameters of "+o.tag, func(p *consensusAPI.Parameters) { p.Parameters = o.hon.Params.Parameters })
	}
	gp := func(desc string, f func(p *consensusAPI.Parameters)) { add("Parameters."+desc, f) }
	gp("TimeoutCommit+1ns", func(p *consensusAPI.Parameters) { p.Parameters.TimeoutCommit++ })
	gp("SkipTimeoutCommit flipped", func(p *consensusAPI.Parameters) { p.Parameters.SkipTimeoutCommit = !p.Parameters.SkipTimeoutCommit })
	gp("EmptyBlockInterval+1ns", func(p *consensusAPI.Parameters) { p.Parameters.EmptyBlockInterval++ })
	for _, d := range []int64{1, -1} {
		d := d
		gp(fmt.Sprintf("MaxTxSize%+d", d), func(p *consensusAPI.Parameters) { p.Parameters.MaxTxSize += uint64(d) })
		gp(fmt.Sprintf("MaxBlockSize%+d", d), func(p *consensusAPI.Parameters) { p.Parameters.MaxBlockSize += uint64(d) })
		gp(fmt.Sprintf("MaxBlockGas%+d", d), func(p *consensusAPI.Parameters) { p.Parameters.MaxBlockGas += transactionGas(d) })
		gp(fmt.Sprintf("MaxEvidenceSize%+d", d), func(p *consensusAPI.Parameters) { p.Parameters.MaxEvidenceSize += uint64(d) })
		gp(fmt.Sprintf("MinGasPrice%+d", d), func(p *consensusAPI.Parameters) { p.Parameters.MinGasPrice += uint64(d) })
		gp(fmt.Sprintf("StateCheckpointInterval%+d", d), func(p *consensusAPI.Parameters) { p.Parameters.StateCheckpointInterval += uint64(d) })
		gp(fmt.Sprintf("StateCheckpointNumKept%+d", d), func(p *consensusAPI.Parameters) { p.Parameters.StateCheckpointNumKept += uint64(d) })
		gp(fmt.Sprintf("StateCheckpointChunkSize%+d", d), func(p *consensusAPI.Parameters) { p.Parameters.StateCheckpointChunkSize += uint64(d) })
	}
	gp("MinGasPrice=0", func(p *consensusAPI.Parameters) { p.Parameters.MinGasPrice = 0 })
	gp("MaxBlockGas=0", func(p *consensusAPI.Parameters) { p.Parameters.MaxBlockGas = 0 })
	gp("GasCosts tx_byte+1", func(p *consensusAPI.Parameters) { p.Parameters.GasCosts["tx_byte"]++ })
	gp("GasCosts extra op", func(p *consensusAPI.Parameters) { p.Parameters.GasCosts["forged"] = 1 })
	gp("GasCosts=nil", func(p *consensusAPI.Parameters) { p.Parameters.GasCosts = nil })
	gp("PublicKeyBlacklist extra", func(p *consensusAPI.Parameters) {
		p.Parameters.PublicKeyBlacklist = append(p.Parameters.PublicKeyBlacklist, forgedOasisKey())
	})
	gp("FeatureVersion set", func(p *consensusAPI.Parameters) { p.Parameters.FeatureVersion = &versionVersion{Major: 99} })
	var pb cmtproto.ConsensusParams
	if err := pb.Unmarshal(orig.Meta); err != nil {
		return out
	}
	mm := func(desc string, f func(x *cmtproto.ConsensusParams)) {
		var x cmtproto.ConsensusParams
		_ = x.Unmarshal(orig.Meta)
		f(&x)
		b, err := x.Marshal()
		if err != nil {
			return
		}
		add("Meta: "+desc, func(p *consensusAPI.Parameters) { p.Meta = b })
	}
	mm("re-encoded unchanged (identical)", func(x *cmtproto.ConsensusParams) {})
	for _, d := range []int64{1, -1} {
		d := d
		mm(fmt.Sprintf("Block.MaxBytes%+d", d), func(x *cmtproto.ConsensusParams) { x.Block.MaxBytes += d })
		mm(fmt.Sprintf("Block.MaxGas%+d", d), func(x *cmtproto.ConsensusParams) { x.Block.MaxGas += d })
		mm(fmt.Sprintf("Evidence.MaxAgeNumBlocks%+d", d), func(x *cmtproto.ConsensusParams) { x.Evidence.MaxAgeNumBlocks += d })
		mm(fmt.Sprintf("Evidence.MaxBytes%+d", d), func(x *cmtproto.ConsensusParams) { x.Evidence.MaxBytes += d })
	}
	mm("Block.MaxGas=-1", func(x *cmtproto.ConsensusParams) { x.Block.MaxGas = -1 })
	mm("Block.MaxBytes=0", func(x *cmtproto.ConsensusParams) { x.Block.MaxBytes = 0 })
	mm("Block=nil", func(x *cmtproto.ConsensusParams) { x.Block = nil })
	mm("Evidence.MaxAgeDuration+1ns", func(x *cmtproto.ConsensusParams) { x.Evidence.MaxAgeDuration++ })
	mm("Validator.PubKeyTypes+secp256k1", func(x *cmtproto.ConsensusParams) {
		x.Validator.PubKeyTypes = append(x.Validator.PubKeyTypes, "secp256k1")
	})
	mm("Version.App+1", func(x *cmtproto.ConsensusParams) {
		if x.Version == nil {
			x.Version = &cmtproto.VersionParams{}
		}
		x.Version.App++
	})
	return out
}

// ---- inclusion proofs -------------------------------------------------------------

// proofFieldMutants: decode the CBOR proof, alter one element, re-encode.
func proofFieldMutants(raw []byte, otherLeaves [][]byte) []namedBytes {
	var p cmtmerkle.Proof
	if err := cbor.Unmarshal(raw, &p); err != nil {
		return nil
	}
	var out []namedBytes
	mut := func(desc string, f func(x *cmtmerkle.Proof)) {
		var x cmtmerkle.Proof
		_ = cbor.Unmarshal(raw, &x)
		f(&x)
		out = append(out, namedBytes{desc, cbor.Marshal(&x)})
	}
	mut("re-encoded unchanged (identical)", func(x *cmtmerkle.Proof) {})
	for _, v := range []int64{p.Total + 1, p.Total - 1, 0, 1, -1, 2 * p.Total, math.MaxInt64} {
		v := v
		if v == p.Total {
			continue
		}
		mut(fmt.Sprintf("Total=%d", v), func(x *cmtmerkle.Proof) { x.Total = v })
	}
	seen := map[int64]bool{p.Index: true}
	cands := []int64{p.Index + 1, p.Index - 1, 0, -1, p.Total - 1, p.Total, math.MaxInt64}
	for k := int64(0); k < p.Total && k < 32; k++ {
		cands = append(cands, k)
	}
	for _, v := range cands {
		v := v
		if seen[v] {
			continue
		}
		seen[v] = true
		mut(fmt.Sprintf("Index=%d", v), func(x *cmtmerkle.Proof) { x.Index = v })
	}
	for _, a := range bytesAlternatives(p.LeafHash) {
		a := a
		mut("LeafHash "+a.Desc, func(x *cmtmerkle.Proof) { x.LeafHash = a.Val })
	}
	for k, l := range otherLeaves {
		l := l
		if string(l) == string(p.LeafHash) {
			continue
		}
		mut(fmt.Sprintf("LeafHash=leaf hash of tx %d", k), func(x *cmtmerkle.Proof) { x.LeafHash = l })
	}
	mut("Aunts=none", func(x *cmtmerkle.Proof) { x.Aunts = nil })
	mut("Aunts append zero hash", func(x *cmtmerkle.Proof) { x.Aunts = append(x.Aunts, make([]byte, 32)) })
	mut("Aunts prepend zero hash", func(x *cmtmerkle.Proof) { x.Aunts = append([][]byte{make([]byte, 32)}, x.Aunts...) })
	for i := range p.Aunts {
		i := i
		mut(fmt.Sprintf("Aunts drop %d", i), func(x *cmtmerkle.Proof) { x.Aunts = append(x.Aunts[:i:i], x.Aunts[i+1:]...) })
		mut(fmt.Sprintf("Aunts duplicate %d", i), func(x *cmtmerkle.Proof) {
			s := append([][]byte{}, x.Aunts[:i+1]...)
			x.Aunts = append(s, x.Aunts[i:]...)
		})
		if i+1 < len(p.Aunts) {
			mut(fmt.Sprintf("Aunts swap %d,%d", i, i+1), func(x *cmtmerkle.Proof) { x.Aunts[i], x.Aunts[i+1] = x.Aunts[i+1], x.Aunts[i] })
		}
		for _, a := range bytesAlternatives(p.Aunts[i]) {
			a := a
			mut(fmt.Sprintf("Aunts[%d] %s", i, a.Desc), func(x *cmtmerkle.Proof) { x.Aunts[i] = a.Val })
		}
		mut(fmt.Sprintf("Aunts[%d] <-> LeafHash", i), func(x *cmtmerkle.Proof) { x.Aunts[i], x.LeafHash = x.LeafHash, x.Aunts[i] })
	}
	return out
}
