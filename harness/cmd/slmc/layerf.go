package main

// Layer F: the package-private verification functions called directly through
// the verif export, one mutant per call.

import (
	"bytes"
	"context"
	"fmt"

	cmtmerkle "github.com/cometbft/cometbft/crypto/merkle"
	cmttypes "github.com/cometbft/cometbft/types"

	"github.com/oasisprotocol/oasis-core/go/common/cbor"
	"github.com/oasisprotocol/oasis-core/go/common/crypto/hash"
	consensusAPI "github.com/oasisprotocol/oasis-core/go/consensus/api"
	"github.com/oasisprotocol/oasis-core/go/consensus/api/transaction"
	cmtAPI "github.com/oasisprotocol/oasis-core/go/consensus/cometbft/api"
	"github.com/oasisprotocol/oasis-core/go/consensus/cometbft/light"
	"github.com/oasisprotocol/oasis-core/go/consensus/cometbft/stateless"
)

type Universe struct {
	Chains   []*Chain
	Thorough bool
	late     []Family
}

// subst: in the thorough tier the byte-level neighbourhood also contains every
// other value of every byte, except for three large recorded artefacts (results
// meta 48 kB, transactions 40 kB, validator set 8.5 kB), whose single-bit
// neighbourhood is complete in the thorough tier anyway.
func (u *Universe) subst(ch *Chain, kind string) bool {
	if !u.Thorough {
		return false
	}
	return !(ch.Name == "recorded" && (kind == "results" || kind == "txs" || kind == "validators"))
}

func (u *Universe) chain(name string) *Chain {
	for _, c := range u.Chains {
		if c.Name == name {
			return c
		}
	}
	return nil
}

// Worker holds per-goroutine instances of the real objects.
type Worker struct {
	u       *Universe
	fcore   map[string]*stateless.Core // function-level Core (stub querier, no light client)
	clients map[string]*light.Client   // real light client over the trusted store
}

func newWorker(u *Universe) (*Worker, error) {
	w := &Worker{u: u, fcore: map[string]*stateless.Core{}, clients: map[string]*light.Client{}}
	for _, ch := range u.Chains {
		c := stateless.NewCore(nil, nil, stateless.Config{ChainContext: synChainContext})
		c.SetQueriers(nil, &stubQueryFactory{ch: ch}, nil)
		w.fcore[ch.Name] = c
		lc, err := newLightClient(ch)
		if err != nil {
			return nil, fmt.Errorf("light client for %s: %w", ch.Name, err)
		}
		w.clients[ch.Name] = lc
	}
	return w, nil
}

// lateSubst registers, for the thorough tier, the byte-substitution extension of a
// byte-level family (every value of every byte that a single-bit flip does not
// reach).  These families run after everything else.
func (u *Universe) lateSubst(on bool, name string, b []byte, eval func(w *Worker, mutant []byte) Result) {
	if !on || len(b) == 0 {
		return
	}
	base := nByteNeighbourhood(b, false)
	u.late = append(u.late, Family{Name: name + "-subst", N: 247 * len(b), Gen: func(i int) Case {
		return Case{Run: func(w *Worker) Result {
			m, _ := byteNeighbour(b, base+i, true)
			return eval(w, m)
		}}
	}})
}

// ---- evaluation: one call of the real code + oracle -----------------------------

func evalBlock(ch *Chain, h int64, blk *consensusAPI.Block) Result {
	err, pan := guard(func() error { return stateless.VerifVerifyBlock(blk, ch.LBs[h]) })
	if pan != "" {
		return panicked(pan)
	}
	if err != nil {
		return rejected(err)
	}
	return accepted(diffBlock(ch.Honest[h].Block, blk))
}

// evalTxs mirrors GetTransactions followed by fetchStateRootFromMetaTx.
func evalTxs(ch *Chain, h int64, txs [][]byte) Result {
	err, pan := guard(func() error { return stateless.VerifVerifyTransactions(txs, ch.LBs[h]) })
	if pan != "" {
		return panicked(pan)
	}
	if err != nil {
		// Independent statement of the binding: DataHash of the list per the specification.
		if len(diffTxs(ch.Honest[h].Txs, txs)) == 0 && bytes.Equal(refDataHash(txs), ch.LBs[h].DataHash) {
			return Result{Class: "violation", Violation: "unmodified transaction list rejected: " + err.Error()}
		}
		return rejected(err)
	}
	if d := diffTxs(ch.Honest[h].Txs, txs); len(d) > 0 {
		return accepted(d)
	}
	// Accepted and identical: the state root read from the metadata transaction must be the true one.
	var root hash.Hash
	err, pan = guard(func() error {
		var e error
		root, e = stateless.VerifStateRootFromBlockTxs(txs)
		return e
	})
	if pan != "" {
		return panicked(pan)
	}
	hon := ch.Honest[h]
	if len(txs) > 0 && hon.HasStateRoot {
		if err != nil {
			return Result{Accepted: true, Class: "violation", Violation: "state root not readable from verified transactions: " + err.Error()}
		}
		if root != hon.StateRoot {
			return Result{Accepted: true, Class: "violation", Violation: fmt.Sprintf("state root from metadata transaction %s differs from the next header's app hash %s", root, hon.StateRoot)}
		}
	}
	return accepted(nil)
}

func evalResults(ch *Chain, h int64, res *consensusAPI.BlockResults, root []byte, rootIsTrue bool) Result {
	var meta *cmtAPI.BlockResultsMeta
	err, pan := guard(func() error {
		var e error
		meta, e = stateless.VerifVerifyBlockResults(res, root, ch.LBs[h])
		return e
	})
	if pan != "" {
		return panicked(pan)
	}
	if err != nil {
		return rejected(err)
	}
	if !rootIsTrue {
		return Result{Accepted: true, Class: "violation", Violation: "results accepted against a results hash they were not issued for"}
	}
	d, want := diffResultsDecoded(ch.Honest[h].Results, res)
	r := accepted(d)
	if r.Violation == "" && meta != nil {
		// What the caller gets is the returned decoded meta: it must be the decoding of the accepted response.
		if want == nil || len(diffResultsMeta(want, meta)) > 0 {
			return Result{Accepted: true, Class: "violation", Violation: "returned results meta is not the decoding of the accepted response"}
		}
	}
	return r
}

func evalValidators(w *Worker, ch *Chain, h int64, v *consensusAPI.Validators) Result {
	// v claims to be the validator set of h+1, verified against the light block of h.
	err, pan := guard(func() error { return w.fcore[ch.Name].VerifVerifyNextValidators(v, ch.LBs[h]) })
	if pan != "" {
		return panicked(pan)
	}
	if err != nil {
		return rejected(err)
	}
	return accepted(diffValidators(ch.Honest[h+1].Validators, v))
}

func evalParams(w *Worker, ch *Chain, h int64, p *consensusAPI.Parameters) Result {
	err, pan := guard(func() error { return w.fcore[ch.Name].VerifVerifyParameters(context.Background(), p, ch.LBs[h]) })
	if pan != "" {
		return panicked(pan)
	}
	if err != nil {
		return rejected(err)
	}
	return accepted(diffParams(ch.Honest[h].Params, p))
}

// honestProofSet: decoded honest proofs for every index holding exactly txBytes.
func honestProofsFor(txs [][]byte, honest [][]byte, txBytes []byte) []*cmtmerkle.Proof {
	var out []*cmtmerkle.Proof
	for j := range txs {
		if bytes.Equal(txs[j], txBytes) {
			var p cmtmerkle.Proof
			if cbor.Unmarshal(honest[j], &p) == nil {
				out = append(out, &p)
			}
		}
	}
	return out
}

// evalProof mirrors SubmitTxWithProof: the light block is looked up by the
// height the proof claims; lbFor == nil means the light client has no such block.
func evalProof(ch *Chain, proof *transaction.Proof, tx *transaction.SignedTransaction, lb *cmttypes.LightBlock) Result {
	if lb == nil {
		return Result{Class: "rejected", Err: "failed to verify light block"}
	}
	err, pan := guard(func() error { return stateless.VerifVerifyTransactionProof(proof, tx, lb) })
	if pan != "" {
		return panicked(pan)
	}
	if err != nil {
		return rejected(err)
	}
	// Accepted: per the specification the proof must be an audit path of exactly
	// these transaction bytes to exactly this block's data hash ...
	txBytes := cbor.Marshal(tx)
	var p cmtmerkle.Proof
	if e := cbor.Unmarshal(proof.RawProof, &p); e != nil {
		return Result{Accepted: true, Class: "violation", Violation: "accepted proof is not decodable: " + e.Error()}
	}
	leaf := refTxLeaves([][]byte{txBytes})[0]
	if !refVerify(lb.DataHash, p.Total, p.Index, p.LeafHash, p.Aunts, leaf) {
		return Result{Accepted: true, Class: "violation", Violation: fmt.Sprintf("proof accepted for transaction bytes/root it does not prove (reference verifier disagrees; height %d)", lb.Height)}
	}
	// ... and, the block's list being known, one of the honest proofs for these bytes in that block.
	var hon *Honest
	for _, c := range []*Chain{ch} {
		if x, ok := c.Honest[lb.Height]; ok && c.LBs[lb.Height] == lb {
			hon = x
		}
	}
	if hon == nil || !hon.HasTxs {
		return Result{Accepted: true, Class: "violation", Violation: "proof accepted against a block whose list does not contain the transaction"}
	}
	honest := stateless.VerifTransactionsWithProofs(hon.Txs).Proofs
	for _, hp := range honestProofsFor(hon.Txs, honest, txBytes) {
		if proofsEqual(hp, &p) {
			return accepted(nil)
		}
	}
	// Same bytes, same root, same audit path, but another claimed (Total, Index) or encoding of it.
	for _, hp := range honestProofsFor(hon.Txs, honest, txBytes) {
		q := p
		q.Total, q.Index = hp.Total, hp.Index
		if proofsEqual(hp, &q) {
			return accepted([]string{"proof.total_or_index"})
		}
	}
	return Result{Accepted: true, Class: "violation", Violation: "accepted proof differs from every honest proof of these transaction bytes in that block"}
}

func evalMetaTxDecoder(ch *Chain, h int64, raw []byte) Result {
	var root hash.Hash
	err, pan := guard(func() error {
		var e error
		root, e = stateless.VerifStateRootFromMetaTx(raw)
		return e
	})
	if pan != "" {
		return panicked(pan)
	}
	if err != nil {
		return Result{Class: "decoder-error", Err: errClass(err)}
	}
	if root == ch.Honest[h].StateRoot {
		return Result{Accepted: true, Class: "decoder-same-root"}
	}
	// Not a violation by itself: the bytes are bound by verifyTransactions (checked in evalTxs for the same mutant).
	return Result{Accepted: true, Class: "decoder-other-root"}
}

// ---- families ---------------------------------------------------------------------

func (u *Universe) allRoots() []namedBytes {
	var out []namedBytes
	seen := map[string]bool{}
	add := func(tag string, b []byte) {
		if len(b) == 0 || seen[string(b)] {
			return
		}
		seen[string(b)] = true
		out = append(out, namedBytes{tag, cloneBytes(b)})
	}
	for _, c := range u.Chains {
		for _, h := range c.Heights {
			lb := c.LBs[h]
			t := fmt.Sprintf("%s/%d.", c.Name, h)
			add(t+"LastResultsHash", lb.LastResultsHash)
			add(t+"DataHash", lb.DataHash)
			add(t+"AppHash", lb.AppHash)
			add(t+"LastCommitHash", lb.LastCommitHash)
			add(t+"ValidatorsHash", lb.ValidatorsHash)
			add(t+"ConsensusHash", lb.ConsensusHash)
			add(t+"EvidenceHash", lb.EvidenceHash)
			add(t+"Hash", lb.Hash())
		}
	}
	add("zero", make([]byte, 32))
	return out
}

func (u *Universe) familiesF() []Family {
	var fams []Family
	for _, ch := range u.Chains {
		for _, h := range ch.Heights {
			ch, h := ch, h
			hon := ch.Honest[h]
			pfx := fmt.Sprintf("F/%s/%d/", ch.Name, h)
			if hon.Block != nil {
				fams = append(fams, u.blockFamilies(pfx, ch, h)...)
			}
			if hon.HasTxs {
				fams = append(fams, u.txsFamilies(pfx, ch, h)...)
				fams = append(fams, u.proofFamilies(pfx, ch, h)...)
			}
			if hon.Results != nil && ch.LBs[h+1] != nil {
				fams = append(fams, u.resultsFamilies(pfx, ch, h)...)
			}
			if ch.LBs[h+1] != nil && ch.Honest[h+1] != nil && ch.Honest[h+1].Validators != nil {
				fams = append(fams, u.validatorsFamilies(pfx, ch, h)...)
			}
			if hon.Params != nil {
				fams = append(fams, u.paramsFamilies(pfx, ch, h)...)
			}
		}
	}
	return fams
}

func (u *Universe) blockFamilies(pfx string, ch *Chain, h int64) []Family {
	sb := u.subst(ch, "block")
	orig := ch.Honest[h].Block
	var fams []Family
	var cases []Case
	cases = append(cases, Case{Desc: "unmodified", Digest: digestOf([]byte("orig")), Run: func(*Worker) Result {
		r := evalBlock(ch, h, copyBlock(orig))
		if !r.Accepted {
			r.Class, r.Violation = "violation", "unmodified block rejected: "+r.Err
		}
		return r
	}})
	for _, m := range u.blockFieldMutants(ch, h) {
		m := m
		tb, _ := m.Val.Time.MarshalBinary()
		cases = append(cases, Case{Desc: m.Desc, Digest: digestOf(cbor.Marshal(m.Val.Height), m.Val.Hash[:], tb, cbor.Marshal(m.Val.StateRoot), cbor.Marshal(m.Val.Size), m.Val.Meta),
			Run: func(*Worker) Result { return evalBlock(ch, h, m.Val) }})
	}
	fams = append(fams, listFamily(pfx+"block/field", cases))
	arr := func(name string, get func(b *consensusAPI.Block) []byte) {
		fams = append(fams, Family{Name: pfx + "block/" + name + "-bitflip", N: 256, Gen: func(i int) Case {
			return Case{Desc: fmt.Sprintf("%s bit %d flipped", name, i), Run: func(*Worker) Result {
				nb := copyBlock(orig)
				f := get(nb)
				f[i/8] ^= 1 << uint(i%8)
				return evalBlock(ch, h, nb)
			}}
		}})
	}
	arr("Hash", func(b *consensusAPI.Block) []byte { return b.Hash[:] })
	arr("StateRoot.Hash", func(b *consensusAPI.Block) []byte { return b.StateRoot.Hash[:] })
	arr("StateRoot.Namespace", func(b *consensusAPI.Block) []byte { return b.StateRoot.Namespace[:] })
	fams = append(fams, Family{Name: pfx + "block/Meta-bytes", N: nByteNeighbourhood(orig.Meta, false), Gen: func(i int) Case {
		return Case{Desc: "", Run: func(*Worker) Result {
			nb := copyBlock(orig)
			nb.Meta, _ = byteNeighbour(orig.Meta, i, false)
			return evalBlock(ch, h, nb)
		}}
	}})
	u.lateSubst(sb, pfx+"block/Meta-bytes", orig.Meta, func(_ *Worker, m []byte) Result {
		nb := copyBlock(orig)
		nb.Meta = m
		return evalBlock(ch, h, nb)
	})
	return fams
}

func (u *Universe) txsFamilies(pfx string, ch *Chain, h int64) []Family {
	sb := u.subst(ch, "txs")
	orig := ch.Honest[h].Txs
	var fams []Family
	var cases []Case
	cases = append(cases, Case{Desc: "unmodified", Digest: digestOf([]byte("orig")), Run: func(*Worker) Result {
		r := evalTxs(ch, h, copyTxs(orig))
		if !r.Accepted && r.Violation == "" {
			r.Class, r.Violation = "violation", "unmodified transaction list rejected: "+r.Err
		}
		return r
	}})
	for _, m := range u.txsFieldMutants(ch, h) {
		m := m
		cases = append(cases, Case{Desc: m.Desc, Digest: digestOf(m.Val...) ^ uint64(len(m.Val)), Run: func(*Worker) Result { return evalTxs(ch, h, m.Val) }})
	}
	fams = append(fams, listFamily(pfx+"txs/field", cases))
	// Byte-level neighbourhood of every transaction, and every split of a transaction in two.
	type span struct{ tx, off, n int }
	var spans []span
	tot := 0
	for i, t := range orig {
		spans = append(spans, span{i, tot, nByteNeighbourhood(t, false)})
		tot += nByteNeighbourhood(t, false)
	}
	locate := func(sp []span, i int) (int, int) {
		lo, hi := 0, len(sp)-1
		for lo < hi {
			mid := (lo + hi + 1) / 2
			if sp[mid].off <= i {
				lo = mid
			} else {
				hi = mid - 1
			}
		}
		return sp[lo].tx, i - sp[lo].off
	}
	if tot > 0 {
		fams = append(fams, Family{Name: pfx + "txs/tx-bytes", N: tot, Gen: func(i int) Case {
			return Case{Run: func(*Worker) Result {
				k, j := locate(spans, i)
				t := copyTxs(orig)
				t[k], _ = byteNeighbour(orig[k], j, false)
				return evalTxs(ch, h, t)
			}}
		}})
		for k := range orig {
			k := k
			u.lateSubst(sb, fmt.Sprintf("%stxs/tx-bytes/%d", pfx, k), orig[k], func(_ *Worker, m []byte) Result {
				t := copyTxs(orig)
				t[k] = m
				return evalTxs(ch, h, t)
			})
		}
		var sspans []span
		stot := 0
		for i, t := range orig {
			if len(t) > 1 {
				sspans = append(sspans, span{i, stot, len(t) - 1})
				stot += len(t) - 1
			}
		}
		if stot > 0 {
			fams = append(fams, Family{Name: pfx + "txs/tx-split", N: stot, Gen: func(i int) Case {
				return Case{Run: func(*Worker) Result {
					k, j := locate(sspans, i)
					cut := j + 1
					t := append(copyTxs(orig[:k]), orig[k][:cut], orig[k][cut:])
					t = append(t, orig[k+1:]...)
					return evalTxs(ch, h, t)
				}}
			}})
		}
		// The metadata transaction decoder on its own (no panic on any neighbour).
		last := orig[len(orig)-1]
		fams = append(fams, Family{Name: pfx + "metatx/decoder-bytes", N: nByteNeighbourhood(last, false), Gen: func(i int) Case {
			return Case{Run: func(*Worker) Result {
				b, _ := byteNeighbour(last, i, false)
				return evalMetaTxDecoder(ch, h, b)
			}}
		}})
		u.lateSubst(sb, pfx+"metatx/decoder-bytes", last, func(_ *Worker, m []byte) Result { return evalMetaTxDecoder(ch, h, m) })
	}
	return fams
}

func (u *Universe) resultsFamilies(pfx string, ch *Chain, h int64) []Family {
	sb := u.subst(ch, "results")
	orig := ch.Honest[h].Results
	trueRoot := ch.LBs[h+1].LastResultsHash
	var fams []Family
	var cases []Case
	cases = append(cases, Case{Desc: "unmodified", Digest: digestOf([]byte("orig")), Run: func(*Worker) Result {
		r := evalResults(ch, h, orig, trueRoot, true)
		if !r.Accepted {
			r.Class, r.Violation = "violation", "unmodified results rejected: "+r.Err
		}
		return r
	}})
	for _, m := range u.resultsFieldMutants(ch, h) {
		m := m
		cases = append(cases, Case{Desc: m.Desc, Digest: digestOf(cbor.Marshal(m.Val.Height), m.Val.Meta),
			Run: func(*Worker) Result { return evalResults(ch, h, m.Val, trueRoot, true) }})
	}
	fams = append(fams, listFamily(pfx+"results/field", cases))
	if ch.Name == "recorded" && !u.Thorough {
		// Quick tier, 48 kB recorded results meta (four fifths of it unbound event data): one
		// bit of every byte (bit = position mod 8), every truncation and the two extensions;
		// the thorough tier flips every bit.
		n := len(orig.Meta)
		fams = append(fams, Family{Name: pfx + "results/Meta-bytes-1of8", N: 2*n + 2, Gen: func(i int) Case {
			return Case{Run: func(*Worker) Result {
				var m []byte
				if i < n {
					m = flipBit(orig.Meta, 8*i+i%8)
				} else {
					m, _ = byteNeighbour(orig.Meta, 8*n+(i-n), false)
				}
				return evalResults(ch, h, &consensusAPI.BlockResults{Height: orig.Height, Meta: m}, trueRoot, true)
			}}
		}})
	} else {
		fams = append(fams, Family{Name: pfx + "results/Meta-bytes", N: nByteNeighbourhood(orig.Meta, false), Gen: func(i int) Case {
			return Case{Run: func(*Worker) Result {
				m, _ := byteNeighbour(orig.Meta, i, false)
				return evalResults(ch, h, &consensusAPI.BlockResults{Height: orig.Height, Meta: m}, trueRoot, true)
			}}
		}})
	}
	u.lateSubst(sb, pfx+"results/Meta-bytes", orig.Meta, func(_ *Worker, m []byte) Result {
		return evalResults(ch, h, &consensusAPI.BlockResults{Height: orig.Height, Meta: m}, trueRoot, true)
	})
	// The honest response against every results hash it was NOT issued for.
	var rc []Case
	for _, r := range u.allRoots() {
		r := r
		if bytes.Equal(r.Val, trueRoot) {
			continue
		}
		rc = append(rc, Case{Desc: "honest results vs root " + r.Desc, Digest: digestOf(r.Val), Run: func(*Worker) Result {
			return evalResults(ch, h, orig, r.Val, false)
		}})
	}
	for _, a := range bytesAlternatives(trueRoot) {
		a := a
		rc = append(rc, Case{Desc: "honest results vs true root " + a.Desc, Digest: digestOf(a.Val), Run: func(*Worker) Result {
			return evalResults(ch, h, orig, a.Val, false)
		}})
	}
	fams = append(fams, listFamily(pfx+"results/wrong-root", rc))
	fams = append(fams, Family{Name: pfx + "results/root-bitflip", N: 8 * len(trueRoot), Gen: func(i int) Case {
		return Case{Desc: fmt.Sprintf("honest results vs true root bit %d flipped", i), Run: func(*Worker) Result {
			return evalResults(ch, h, orig, flipBit(trueRoot, i), false)
		}}
	}})
	return fams
}

func (u *Universe) validatorsFamilies(pfx string, ch *Chain, h int64) []Family {
	sb := u.subst(ch, "validators")
	orig := ch.Honest[h+1].Validators
	var fams []Family
	var cases []Case
	cases = append(cases, Case{Desc: "unmodified", Digest: digestOf([]byte("orig")), Run: func(w *Worker) Result {
		r := evalValidators(w, ch, h, orig)
		if !r.Accepted {
			r.Class, r.Violation = "violation", "unmodified validators rejected: "+r.Err
		}
		return r
	}})
	for _, m := range u.validatorsFieldMutants(ch, h+1) {
		m := m
		cases = append(cases, Case{Desc: m.Desc, Digest: digestOf(cbor.Marshal(m.Val.Height), m.Val.Meta),
			Run: func(w *Worker) Result { return evalValidators(w, ch, h, m.Val) }})
	}
	fams = append(fams, listFamily(pfx+"next-validators/field", cases))
	fams = append(fams, Family{Name: pfx + "next-validators/Meta-bytes", N: nByteNeighbourhood(orig.Meta, false), Gen: func(i int) Case {
		return Case{Run: func(w *Worker) Result {
			m, _ := byteNeighbour(orig.Meta, i, false)
			return evalValidators(w, ch, h, &consensusAPI.Validators{Height: orig.Height, Meta: m})
		}}
	}})
	u.lateSubst(sb, pfx+"next-validators/Meta-bytes", orig.Meta, func(w *Worker, m []byte) Result {
		return evalValidators(w, ch, h, &consensusAPI.Validators{Height: orig.Height, Meta: m})
	})
	return fams
}

func (u *Universe) paramsFamilies(pfx string, ch *Chain, h int64) []Family {
	sb := u.subst(ch, "params")
	orig := ch.Honest[h].Params
	var fams []Family
	var cases []Case
	cases = append(cases, Case{Desc: "unmodified", Digest: digestOf([]byte("orig")), Run: func(w *Worker) Result {
		r := evalParams(w, ch, h, orig)
		if !r.Accepted {
			r.Class, r.Violation = "violation", "unmodified parameters rejected: "+r.Err
		}
		return r
	}})
	for _, m := range u.paramsFieldMutants(ch, h) {
		m := m
		cases = append(cases, Case{Desc: m.Desc, Digest: digestOf(cbor.Marshal(m.Val.Height), cbor.Marshal(m.Val.Parameters), m.Val.Meta),
			Run: func(w *Worker) Result { return evalParams(w, ch, h, m.Val) }})
	}
	fams = append(fams, listFamily(pfx+"params/field", cases))
	fams = append(fams, Family{Name: pfx + "params/Meta-bytes", N: nByteNeighbourhood(orig.Meta, false), Gen: func(i int) Case {
		return Case{Run: func(w *Worker) Result {
			m, _ := byteNeighbour(orig.Meta, i, false)
			np := *orig
			np.Meta = m
			return evalParams(w, ch, h, &np)
		}}
	}})
	u.lateSubst(sb, pfx+"params/Meta-bytes", orig.Meta, func(w *Worker, m []byte) Result {
		np := *orig
		np.Meta = m
		return evalParams(w, ch, h, &np)
	})
	return fams
}

// lbAt is the light-client lookup SubmitTxWithProof performs with the claimed height.
func (ch *Chain) lbAt(h int64) *cmttypes.LightBlock { return ch.LBs[h] }

func (u *Universe) proofFamilies(pfx string, ch *Chain, h int64) []Family {
	sb := u.subst(ch, "proof")
	hon := ch.Honest[h]
	n := len(hon.Txs)
	if n == 0 {
		return nil
	}
	var fams []Family
	proofs := stateless.VerifTransactionsWithProofs(hon.Txs).Proofs
	stxs := make([]*transaction.SignedTransaction, n)
	for i, raw := range hon.Txs {
		var st transaction.SignedTransaction
		if err := cbor.Unmarshal(raw, &st); err != nil {
			return nil
		}
		stxs[i] = &st
	}
	leaves := refTxLeaves(hon.Txs)
	for i := range leaves {
		leaves[i] = refLeaf(leaves[i])
	}
	// Cross product: every honest proof x every transaction of the block x every trusted light block of the universe.
	type lbRef struct {
		ch *Chain
		h  int64
	}
	var lbs []lbRef
	for _, c := range u.Chains {
		for _, x := range c.Heights {
			lbs = append(lbs, lbRef{c, x})
		}
	}
	fams = append(fams, Family{Name: pfx + "proof/cross", N: n * n * len(lbs), Gen: func(idx int) Case {
		i, j, k := idx/(n*len(lbs)), (idx/len(lbs))%n, idx%len(lbs)
		return Case{Desc: fmt.Sprintf("proof of tx %d with tx %d against %s/%d", i, j, lbs[k].ch.Name, lbs[k].h), Run: func(*Worker) Result {
			own := lbs[k].ch == ch && lbs[k].h == h
			r := evalProof(lbs[k].ch, &transaction.Proof{Height: lbs[k].h, RawProof: proofs[i]}, stxs[j], lbs[k].ch.LBs[lbs[k].h])
			shouldAccept := own && bytes.Equal(hon.Txs[i], hon.Txs[j])
			if shouldAccept && !r.Accepted && r.Violation == "" {
				r.Class, r.Violation = "violation", "honest proof rejected for the transaction and block it was issued for: "+r.Err
			}
			if !shouldAccept && r.Accepted && r.Violation == "" && !(bytes.Equal(lbs[k].ch.LBs[lbs[k].h].DataHash, ch.LBs[h].DataHash) && bytes.Equal(hon.Txs[i], hon.Txs[j])) {
				r.Class, r.Violation = "violation", "proof accepted for a transaction/block it was not issued for"
			}
			return r
		}}
	}})
	// Claimed height altered (light block looked up by the claimed height, as SubmitTxWithProof does).
	var hc []Case
	for i := 0; i < n; i++ {
		i := i
		cands := append(int64Alternatives(h), ch.otherHeights(h)...)
		for _, x := range cands {
			x := x
			hc = append(hc, Case{Desc: fmt.Sprintf("proof of tx %d with claimed Height=%d", i, x), Digest: digestOf(proofs[i], cbor.Marshal(x)), Run: func(*Worker) Result {
				r := evalProof(ch, &transaction.Proof{Height: x, RawProof: proofs[i]}, stxs[i], ch.lbAt(x))
				return r
			}})
		}
	}
	fams = append(fams, listFamily(pfx+"proof/height", hc))
	// Per transaction: byte neighbourhood and field mutants of its proof; bit flips of the transaction itself.
	var fc []Case
	for i := 0; i < n; i++ {
		i := i
		for _, m := range proofFieldMutants(proofs[i], leaves) {
			m := m
			fc = append(fc, Case{Desc: fmt.Sprintf("proof of tx %d: %s", i, m.Desc), Digest: digestOf(m.Val, []byte{byte(i), byte(i >> 8)}), Run: func(*Worker) Result {
				return evalProof(ch, &transaction.Proof{Height: h, RawProof: m.Val}, stxs[i], ch.LBs[h])
			}})
		}
	}
	fams = append(fams, listFamily(pfx+"proof/field", fc))
	for i := 0; i < n; i++ {
		i := i
		fams = append(fams, Family{Name: fmt.Sprintf("%sproof/%d/RawProof-bytes", pfx, i), N: nByteNeighbourhood(proofs[i], false), Gen: func(k int) Case {
			return Case{Run: func(*Worker) Result {
				m, _ := byteNeighbour(proofs[i], k, false)
				return evalProof(ch, &transaction.Proof{Height: h, RawProof: m}, stxs[i], ch.LBs[h])
			}}
		}})
		u.lateSubst(sb, fmt.Sprintf("%sproof/%d/RawProof-bytes", pfx, i), proofs[i], func(_ *Worker, m []byte) Result {
			return evalProof(ch, &transaction.Proof{Height: h, RawProof: m}, stxs[i], ch.LBs[h])
		})
		st := stxs[i]
		nb, np, ns := 8*len(st.Blob), 8*len(st.Signature.PublicKey), 8*len(st.Signature.Signature)
		fams = append(fams, Family{Name: fmt.Sprintf("%sproof/%d/tx-bitflip", pfx, i), N: nb + np + ns + 4, Gen: func(k int) Case {
			return Case{Run: func(*Worker) Result {
				m := *st
				switch {
				case k < nb:
					m.Blob = flipBit(st.Blob, k)
				case k < nb+np:
					m.Signature.PublicKey[(k-nb)/8] ^= 1 << uint((k-nb)%8)
				case k < nb+np+ns:
					m.Signature.Signature[(k-nb-np)/8] ^= 1 << uint((k-nb-np)%8)
				case k == nb+np+ns:
					m.Blob = cloneBytes(st.Blob[:len(st.Blob)-1])
				case k == nb+np+ns+1:
					m.Blob = append(cloneBytes(st.Blob), 0)
				case k == nb+np+ns+2:
					m.Blob = []byte{}
				default:
					m.Blob = nil
				}
				return evalProof(ch, &transaction.Proof{Height: h, RawProof: proofs[i]}, &m, ch.LBs[h])
			}}
		}})
	}
	return fams
}
