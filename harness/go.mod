module verif/harness

go 1.26.3

require (
	github.com/cometbft/cometbft v0.37.18
	github.com/oasisprotocol/oasis-core/go v0.0.0
)

require (
	github.com/DataDog/zstd v1.5.6 // indirect
	github.com/a8m/envsubst v1.4.2 // indirect
	github.com/beorn7/perks v1.0.1 // indirect
	github.com/btcsuite/btcutil v1.0.3-0.20201208143702-a53e38424cce // indirect
	github.com/cenkalti/backoff/v4 v4.3.0 // indirect
	github.com/cespare/xxhash/v2 v2.3.0
	github.com/cockroachdb/errors v1.11.3 // indirect
	github.com/cockroachdb/fifo v0.0.0-20240816210425-c5d0cb0b6fc0 // indirect
	github.com/cockroachdb/logtags v0.0.0-20241215232642-bb51bb14a506 // indirect
	github.com/cockroachdb/pebble v1.1.4 // indirect
	github.com/cockroachdb/redact v1.1.5 // indirect
	github.com/cockroachdb/tokenbucket v0.0.0-20230807174530-cc333fc44b06 // indirect
	github.com/cometbft/cometbft-db v1.0.4
	github.com/cosmos/gogoproto v1.7.0 // indirect
	github.com/creachadair/taskgroup v0.13.0 // indirect
	github.com/decred/dcrd/dcrec/secp256k1/v4 v4.4.0 // indirect
	github.com/dgraph-io/badger/v4 v4.5.1
	github.com/dgraph-io/ristretto/v2 v2.1.0 // indirect
	github.com/dustin/go-humanize v1.0.1 // indirect
	github.com/eapache/channels v1.1.0 // indirect
	github.com/eapache/queue v1.1.0 // indirect
	github.com/fatih/color v1.14.1 // indirect
	github.com/fsnotify/fsnotify v1.7.0 // indirect
	github.com/fxamacker/cbor/v2 v2.4.0 // indirect
	github.com/gammazero/deque v0.2.1 // indirect
	github.com/getsentry/sentry-go v0.31.1 // indirect
	github.com/go-jose/go-jose/v4 v4.1.4 // indirect
	github.com/go-kit/kit v0.13.0 // indirect
	github.com/go-kit/log v0.2.1 // indirect
	github.com/go-logfmt/logfmt v0.6.0 // indirect
	github.com/gogo/protobuf v1.3.2 // indirect
	github.com/golang/groupcache v0.0.0-20241129210726-2c02b8208cf8 // indirect
	github.com/golang/protobuf v1.5.4 // indirect
	github.com/golang/snappy v0.0.4
	github.com/google/btree v1.1.3 // indirect
	github.com/google/flatbuffers v25.1.24+incompatible // indirect
	github.com/google/go-cmp v0.7.0 // indirect
	github.com/google/orderedcode v0.0.1 // indirect
	github.com/gorilla/websocket v1.5.3 // indirect
	github.com/gtank/merlin v0.1.1 // indirect
	github.com/hashicorp/go-hclog v1.5.0 // indirect
	github.com/hashicorp/go-plugin v1.4.6 // indirect
	github.com/hashicorp/golang-lru/v2 v2.0.7
	github.com/hashicorp/hcl v1.0.0 // indirect
	github.com/hashicorp/yamux v0.0.0-20180604194846-3520598351bb // indirect
	github.com/ipfs/go-cid v0.5.0 // indirect
	github.com/ipfs/go-log/v2 v2.6.0 // indirect
	github.com/klauspost/compress v1.18.7 // indirect
	github.com/klauspost/cpuid/v2 v2.2.10 // indirect
	github.com/kr/pretty v0.3.1 // indirect
	github.com/kr/text v0.2.0 // indirect
	github.com/lib/pq v1.10.9 // indirect
	github.com/libp2p/go-buffer-pool v0.1.0 // indirect
	github.com/libp2p/go-libp2p v0.48.0
	github.com/libp2p/go-libp2p-pubsub v0.15.0 // indirect
	github.com/libp2p/go-msgio v0.3.0 // indirect
	github.com/magiconair/properties v1.8.7 // indirect
	github.com/mattn/go-colorable v0.1.13 // indirect
	github.com/mattn/go-isatty v0.0.20 // indirect
	github.com/mimoo/StrobeGo v0.0.0-20210601165009-122bf33a46e0 // indirect
	github.com/minio/highwayhash v1.0.3 // indirect
	github.com/mitchellh/go-testing-interface v0.0.0-20171004221916-a61a99592b77 // indirect
	github.com/mitchellh/mapstructure v1.5.0 // indirect
	github.com/mr-tron/base58 v1.2.0 // indirect
	github.com/multiformats/go-base32 v0.1.0 // indirect
	github.com/multiformats/go-base36 v0.2.0 // indirect
	github.com/multiformats/go-multiaddr v0.16.0 // indirect
	github.com/multiformats/go-multiaddr-fmt v0.1.0 // indirect
	github.com/multiformats/go-multibase v0.2.0 // indirect
	github.com/multiformats/go-multicodec v0.9.1 // indirect
	github.com/multiformats/go-multihash v0.2.3 // indirect
	github.com/multiformats/go-multistream v0.6.1 // indirect
	github.com/multiformats/go-varint v0.0.7 // indirect
	github.com/munnerz/goautoneg v0.0.0-20191010083416-a7dc8b61c822 // indirect
	github.com/nxadm/tail v1.4.11 // indirect
	github.com/oasisprotocol/curve25519-voi v0.0.0-20251114093237-2ab5a27a1729
	github.com/oasisprotocol/safeopen v0.0.0-20200528085122-e01cfdfc7661 // indirect
	github.com/oklog/run v1.0.0 // indirect
	github.com/pelletier/go-toml/v2 v2.2.2 // indirect
	github.com/pkg/errors v0.9.1 // indirect
	github.com/prometheus/client_golang v1.22.0 // indirect
	github.com/prometheus/client_model v0.6.2 // indirect
	github.com/prometheus/common v0.64.0 // indirect
	github.com/prometheus/procfs v0.16.1 // indirect
	github.com/rcrowley/go-metrics v0.0.0-20201227073835-cf1acfcdf475 // indirect
	github.com/rogpeppe/go-internal v1.13.1 // indirect
	github.com/rs/cors v1.11.1 // indirect
	github.com/sagikazarmark/slog-shim v0.1.0 // indirect
	github.com/spaolacci/murmur3 v1.1.0 // indirect
	github.com/spf13/afero v1.11.0 // indirect
	github.com/spf13/cast v1.6.0 // indirect
	github.com/spf13/cobra v1.8.1 // indirect
	github.com/spf13/pflag v1.0.6 // indirect
	github.com/spf13/viper v1.19.0
	github.com/spiffe/go-spiffe/v2 v2.6.0 // indirect
	github.com/subosito/gotenv v1.6.0 // indirect
	github.com/syndtr/goleveldb v1.0.1-0.20210819022825-2ae1ddf74ef7 // indirect
	github.com/tidwall/btree v1.6.0 // indirect
	github.com/x448/float16 v0.8.4 // indirect
	go.opencensus.io v0.24.0 // indirect
	go.uber.org/multierr v1.11.0 // indirect
	go.uber.org/zap v1.27.0 // indirect
	golang.org/x/crypto v0.54.0 // indirect
	golang.org/x/exp v0.0.0-20250606033433-dcc06ee1d476 // indirect
	golang.org/x/net v0.57.0 // indirect
	golang.org/x/sync v0.22.0 // indirect
	golang.org/x/sys v0.47.0 // indirect
	golang.org/x/text v0.40.0 // indirect
	google.golang.org/genproto/googleapis/rpc v0.0.0-20251202230838-ff82c1b0f217 // indirect
	google.golang.org/grpc v1.79.3 // indirect
	google.golang.org/grpc/security/advancedtls v0.0.0-20221004221323-12db695f1648 // indirect
	google.golang.org/protobuf v1.36.10 // indirect
	gopkg.in/ini.v1 v1.67.0 // indirect
	gopkg.in/tomb.v1 v1.0.0-20141024135613-dd632973f1e7 // indirect
	gopkg.in/yaml.v3 v3.0.1 // indirect
	lukechampine.com/blake3 v1.4.1 // indirect
)

replace github.com/oasisprotocol/oasis-core/go => /repo/go

replace (
	github.com/cometbft/cometbft => github.com/oasisprotocol/cometbft v0.37.18-oasis3
	github.com/spf13/cast => github.com/oasisprotocol/cast v0.0.0-20220606122631-eba453e69641
	github.com/spf13/viper => github.com/spf13/viper v1.17.0
	golang.org/x/crypto/curve25519 => github.com/oasisprotocol/curve25519-voi/primitives/x25519 v0.0.0-20251114093237-2ab5a27a1729
	golang.org/x/crypto/ed25519 => github.com/oasisprotocol/curve25519-voi/primitives/ed25519 v0.0.0-20251114093237-2ab5a27a1729
)

// Patched copy of badger v4.5.1 (tests/docs stripped) with the verifhook package:
// durable-write / read hooks and a memtable-size override.  See DESIGN.md §2.3.
replace github.com/dgraph-io/badger/v4 => ../third_party/badger
