#!/usr/bin/env python3
"""Generates MANIFEST.json from the table below (single source of truth)."""
import json, sys
CHECKS = {
 "C20": dict(engine="qmc", cat="model_checking", ref="§4 C20",
   technique="stateless exhaustive enumeration of operation sequences on the real scheduler vs. set-valued reference model",
   text="Every operation sequence up to the stated depth over a 29-letter alphabet (2 senders, sequence windows at 0, 2^63 and 2^64-1, tied priorities, capacities 1..3) is executed on the real mainQueueScheduler and compared step by step with a reference model; exhaustive within the bound, nothing sampled.",
   note="Drives the package-private scheduler through an overlay-injected forwarding file; the mutex wrapper mainQueue is trusted; bounds: depth 4 (quick) / 5 (thorough), 2 senders, 3 offsets per window."),
}
NA = {}
def main():
    props=[json.loads(l)["id"] for l in open("/verif/properties.jsonl")]
    checks=[]
    for pid in props:
        if pid not in CHECKS: continue
        c=CHECKS[pid]
        checks.append({
          "property_id": pid,
          "quick_cmd": f"bin/check {pid} --tier quick",
          "thorough_cmd": f"bin/check {pid} --tier thorough",
          "evidence_file": f"/verif/evidence/{pid}.json",
          "replay_cmd_template": f"bin/check {pid} --replay {{path}}",
          "engine": c["engine"],
          "level_claimed": {"category": c["cat"], "text": c["text"], "design_ref": c["ref"]},
          "level_note": c["note"],
          "technique": c["technique"],
        })
    na=[{"property_id":p,"reason":NA.get(p,"check not built yet in this round; will be claimed once its engine lands (see DESIGN.md §9)")} for p in props if p not in CHECKS]
    engines={}
    for pid,c in CHECKS.items():
        engines.setdefault(c["engine"],[]).append(pid)
    m={"version":1,
       "setup_cmd":"bin/setup",
       "hooks":{"guard":"verif","enable":"go build -tags verif -overlay .gen/overlay.json (overlay ADDS //go:build verif forwarding files from harness/overlay/ to packages of /repo/go; nothing is committed to /repo for instrumentation)",
                "baseline_off_cmd":"/verif/bin/baseline_off","source_commits":[],"add_only":True},
       "engines":[{"name":e,"path":f"harness/cmd/{e}","serves_properties":sorted(p)} for e,p in sorted(engines.items())],
       "checks":checks,
       "not_applicable":na,
       "notes":"See DESIGN.md. fix: commits in /repo are listed in known_findings.jsonl (kind=fixed)."}
    json.dump(m,open("/verif/MANIFEST.json","w"),indent=1)
main()
