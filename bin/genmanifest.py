#!/usr/bin/env python3
"""Generates MANIFEST.json from the table below (single source of truth)."""
import json, sys
CHECKS = {
 "C20": dict(engine="qmc", cat="model_checking", ref="§4 C20",
   technique="stateless exhaustive enumeration of operation sequences on the real scheduler vs. set-valued reference model",
   text="Every operation sequence up to the stated depth over a 29-letter alphabet (2 senders, sequence windows at 0, 2^63 and 2^64-1, tied priorities, capacities 1..3) is executed on the real mainQueueScheduler and compared step by step with a reference model; exhaustive within the bound, nothing sampled.",
   note="Drives the package-private scheduler through an overlay-injected forwarding file; the mutex wrapper mainQueue is trusted; bounds: depth 4 (quick) / 5 (thorough), 2 senders, 3 offsets per window."),
 "C02": dict(engine="kvmc", cat="model_checking", ref="§4 C02",
   technique="exhaustive enumeration of all contents sets over an adversarial key alphabet + closure step on the real tree vs. independent contents-only hasher",
   text="All 65,536 contents sets over 8 adversarial keys x {absent,'',a,b} are built on the real tree by four constructions; the root must equal an independent canonical-trie hash computed from the sorted key set alone and roots must be pairwise distinct. A closure step (every letter from every canonical state gives the canonical physical shape) extends the result to every finite no-commit history; commit/dirty interplay, both backends, tiny caches, reopen and write-log replay are enumerated over a sub-alphabet.",
   note="Trusted: SHA-512/256, Go; bounded to the key/value alphabet; node capacity 1 is a recorded known finding."),
 "C03": dict(engine="kvmc", cat="model_checking", ref="§4 C03",
   technique="stateless exhaustive enumeration of operation sequences on the real tree + overlay stack vs. ordered-map reference",
   text="Every sequence of depth 3 (quick) / 4 (thorough) over 27 letters (insert, remove, remove-existing, get, seek, tree commit, reopen, overlay push / commit / discard) from 4 committed initial states, 6 cache settings, badger and pathbadger, is executed on the real tree with up to 3 stacked overlays and compared (all gets, scans from 14 seek positions, on the top of the stack, after committing overlays, after commit + reopen) with a Go map.",
   note="Trusted: the reference map; excluded: mutating a tree under a live iterator. Two cache-capacity defects are recorded as known findings and still explored."),
}
NA = {}
def main():
    props=[json.loads(l)["id"] for l in open("/verif/properties.jsonl")]
    checks=[]
    for pid in props:
        if pid not in CHECKS: continue
        c=CHECKS[pid]
        checks.append({
          "property_id": pid,
          "quick_cmd": f"bin/check {pid} --tier quick",
          "thorough_cmd": f"bin/check {pid} --tier thorough",
          "evidence_file": f"/verif/evidence/{pid}.json",
          "replay_cmd_template": f"bin/check {pid} --replay {{path}}",
          "engine": c["engine"],
          "level_claimed": {"category": c["cat"], "text": c["text"], "design_ref": c["ref"]},
          "level_note": c["note"],
          "technique": c["technique"],
        })
    na=[{"property_id":p,"reason":NA.get(p,"check not built yet in this round; will be claimed once its engine lands (see DESIGN.md §9)")} for p in props if p not in CHECKS]
    engines={}
    for pid,c in CHECKS.items():
        engines.setdefault(c["engine"],[]).append(pid)
    m={"version":1,
       "setup_cmd":"bin/setup",
       "hooks":{"guard":"verif","enable":"go build -tags verif -overlay <generated json> (overlay ADDS //go:build verif forwarding files from harness/overlay/ to packages of /repo/go; nothing is committed to /repo for instrumentation)",
                "baseline_off_cmd":"/verif/bin/baseline_off","source_commits":[],"add_only":True},
       "engines":[{"name":e,"path":f"harness/cmd/{e}","serves_properties":sorted(p)} for e,p in sorted(engines.items())],
       "checks":checks,
       "not_applicable":na,
       "notes":"See DESIGN.md. fix: commits in /repo are listed in known_findings.jsonl (kind=fixed)."}
    json.dump(m,open("/verif/MANIFEST.json","w"),indent=1)
main()
