#!/usr/bin/env python3
"""patchmaps.py <runtime table.go> <dst> <overlay.json>: writes a copy of the Go runtime's
map iterator source in which the two random iterator offsets can be fixed through a
push-linknamed variable, and adds it to the overlay.  Exits 1 if the source does not
look as expected (the build then falls back to the unpatched toolchain)."""
import sys, json
src, dst, ov = sys.argv[1:4]
s = open(src).read()
a, b = "\tit.entryOffset = rand()\n", "\tit.dirOffset = rand()\n"
if s.count(a) != 1 or s.count(b) != 1 or 'import (' not in s:
    sys.exit(1)
s = s.replace(a, "\tit.entryOffset = verifIterOffset(rand())\n").replace(b, "\tit.dirOffset = verifIterOffset(rand())\n")
if '_ "unsafe"' not in s and '"unsafe"' not in s:
    s = s.replace('import (', 'import (\n\t_ "unsafe"', 1)
s += '''
// verifIterOverride (added by the /verif harness overlay): 0 = off, otherwise every map
// iterator starts at offset verifIterOverride-1 instead of a random one.
//
//go:linkname verifIterOverride
var verifIterOverride uint64

func verifIterOffset(r uint64) uint64 {
	if v := verifIterOverride; v != 0 {
		return v - 1
	}
	return r
}
'''
open(dst, "w").write(s)
o = json.load(open(ov))
o["Replace"][src] = dst
json.dump(o, open(ov, "w"), indent=1)
