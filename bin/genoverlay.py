#!/usr/bin/env python3
"""Emit a go build -overlay JSON that ADDS the //go:build verif files under
harness/overlay/<pkg>/ to the corresponding package under /repo/go/<pkg>/."""
import json, os, sys
root = sys.argv[1]
src = os.path.join(root, "harness", "overlay")
rep = {}
for d, _, files in os.walk(src):
    for f in files:
        if not f.endswith(".go"):
            continue
        rel = os.path.relpath(os.path.join(d, f), src)
        target = os.path.join("/repo/go", rel)
        if os.path.exists(target):
            sys.stderr.write("overlay would replace existing file %s\n" % target)
            sys.exit(2)
        rep[target] = os.path.join(d, f)
if len(sys.argv) > 2 and sys.argv[2]:
    rep.update(json.load(open(sys.argv[2])).get("Replace", {}))
# VERIF_SHIM_FILES=<list file> VERIF_SHIM_DIR=<dir>: the listed repository files (relative to /repo/go)
# are copied with their `"sync"` import redirected to the scheduler-aware shim
# (harness/overlay/verifshim/sync).  The copy is made from whatever the build would otherwise
# use (the working tree, or the replacement a seeded change supplies), line numbers unchanged.
shim = os.environ.get("VERIF_SHIM_FILES", "")
if shim:
    import re
    outdir = os.environ["VERIF_SHIM_DIR"]
    os.makedirs(outdir, exist_ok=True)
    for n, line in enumerate(open(shim)):
        rel = line.strip()
        if not rel or rel.startswith("#"):
            continue
        target = os.path.join("/repo/go", rel)
        srcf = rep.get(target, target)
        text = open(srcf).read()
        new, k = re.subn(r'(?m)^(\s*)"sync"\s*$', r'\1sync "github.com/oasisprotocol/oasis-core/go/verifshim/sync"', text)
        if k != 1:
            sys.stderr.write("shim: %s does not import \"sync\" exactly once (%d)\n" % (srcf, k))
            sys.exit(2)
        dst = os.path.join(outdir, "%d_%s" % (n, os.path.basename(rel)))
        open(dst, "w").write(new)
        rep[target] = dst
json.dump({"Replace": rep}, sys.stdout, indent=1)
