#!/usr/bin/env python3
"""Emit a go build -overlay JSON that ADDS the //go:build verif files under
harness/overlay/<pkg>/ to the corresponding package under /repo/go/<pkg>/."""
import json, os, sys
root = sys.argv[1]
src = os.path.join(root, "harness", "overlay")
rep = {}
for d, _, files in os.walk(src):
    for f in files:
        if not f.endswith(".go"):
            continue
        rel = os.path.relpath(os.path.join(d, f), src)
        target = os.path.join("/repo/go", rel)
        if os.path.exists(target):
            sys.stderr.write("overlay would replace existing file %s\n" % target)
            sys.exit(2)
        rep[target] = os.path.join(d, f)
if len(sys.argv) > 2 and sys.argv[2]:
    rep.update(json.load(open(sys.argv[2])).get("Replace", {}))
json.dump({"Replace": rep}, sys.stdout, indent=1)
